"""Shared infrastructure: obligations, evidence writer, known-findings matcher, exit codes, worker pool."""
import json
import os
import sys
import time
import shutil
import hashlib
import subprocess
import concurrent.futures as cf

VERIF = os.path.dirname(os.path.dirname(os.path.abspath(__file__)))
REPO = os.environ.get('VF_REPO', '/repo')
WORK = os.path.join(VERIF, '.work')
EVID = os.path.join(VERIF, 'evidence')
REPLAYS = os.path.join(EVID, 'replays')
PY = os.path.join(VERIF, '.venv', 'bin', 'python')
NCPU = int(os.environ.get('VF_JOBS', os.cpu_count() or 4))

DISCHARGED, VIOLATED, INCONCLUSIVE, ERROR = 'discharged', 'violated', 'inconclusive', 'error'


class HarnessError(Exception):
    """machinery failure: exit code 2, never a VIOLATION"""


# two-pass thorough runs (vf/cli.py): the thorough tier of the family-based properties first runs the complete quick
# tier (so that thorough dominates quick whatever the budget), then spends its wall-time budget on the deeper bounds
STASH = None          # list while the first pass runs: finish() parks its obligations here instead of reporting
PRE = []              # obligations of the first pass, merged into the final report
PRE_ERRORS = []
DONE = set()          # ids discharged by the first pass: not dispatched again
REPLAY_OFFSET = 0     # replay file numbers of the second pass start here


def workdir(name, fresh=True):
    d = os.path.join(WORK, name)
    if fresh and os.path.isdir(d):
        shutil.rmtree(d, ignore_errors=True)
    os.makedirs(d, exist_ok=True)
    return d


def seed():
    try:
        return int(os.environ.get('VERIF_SEED', '0'))
    except ValueError:
        return 0


class Obligation(object):
    """One solver obligation (a condition / query) and its verdict."""

    def __init__(self, oid, engine, desc, bounds=None):
        self.oid = oid                # unique, stable id inside a property run
        self.engine = engine          # 'E1-crosshair' | 'E2-llsym' | 'E3-z3'
        self.desc = desc              # dict written to evidence samples
        self.bounds = bounds or {}
        self.verdict = None
        self.detail = ''
        self.witness = None           # dict, literal-representable, enough to replay
        self.paths = 0
        self.solver_s = 0.0
        self.wall_s = 0.0
        self.nontrivial = False       # vacuity twin witnessed a success path (or equivalent)
        self.signature = None         # for violations: structural fingerprint dict
        self.replayed = None          # True/False once a concrete replay was attempted
        self.replay_path = None

    def as_sample(self):
        d = dict(id=self.oid, engine=self.engine, verdict=self.verdict, paths=self.paths,
                 wall_s=round(self.wall_s, 2))
        d.update(self.desc)
        if self.detail:
            d['detail'] = self.detail[:300]
        if self.witness is not None:
            d['witness'] = self.witness
        return d


def load_known_findings():
    p = os.path.join(VERIF, 'known_findings.json')
    if not os.path.exists(p):
        return []
    with open(p) as f:
        return json.load(f)


def match_known(prop, signature, findings):
    """A violation matches an *open* finding iff every key of the finding's signature equals the violation's."""
    for k in findings:
        if k.get('property') != prop or k.get('status') != 'open':
            continue
        sig = k.get('signature', {})
        if all(signature.get(a) == b for a, b in sig.items()):
            return k
    return None


def write_replay(prop, n, payload):
    os.makedirs(REPLAYS, exist_ok=True)
    p = os.path.join(REPLAYS, '%s-%03d.json' % (prop, n + REPLAY_OFFSET))
    with open(p, 'w') as f:
        json.dump(payload, f, indent=1, sort_keys=True, default=str)
    return p


def finish(prop, tier, obligations, t0, level='model_checking', functions=(), bounds=None, assumptions=(),
           rule='', extra=None, errors=()):
    """Write evidence, print VIOLATION / KNOWN-FINDING lines, return the exit code."""
    if STASH is not None:
        # first pass of a two-pass thorough run: park the results, the second pass reports everything
        for o in obligations:
            if not (o.verdict == INCONCLUSIVE and (o.detail or '').startswith('not explored')):
                STASH.append(o)
        PRE_ERRORS.extend(str(e) for e in errors)
        return 0
    if PRE:
        for o in PRE:
            o.desc = dict(o.desc or {}, **{'pass': 'quick-tier pass of the thorough run'})
        mine = set(o.oid for o in obligations if not (o.verdict == INCONCLUSIVE and (o.detail or '').startswith('not explored')))
        obligations = [o for o in PRE if o.oid not in mine] + list(obligations)
        errors = list(PRE_ERRORS) + list(errors)
        extra = dict(extra or {}, two_pass='the complete quick tier (%d obligations) ran first, then the wall-time budget was spent on the thorough bounds; '
                                          'obligations discharged by the first pass are not dispatched again' % len(PRE))
    findings = load_known_findings()
    viol = [o for o in obligations if o.verdict == VIOLATED]
    unknown_viol = []
    known_lines = {}
    for o in viol:
        k = match_known(prop, o.signature or {}, findings)
        if k is not None:
            known_lines.setdefault(k['description'], []).append(o)
        else:
            unknown_viol.append(o)
    for desc, os_ in sorted(known_lines.items()):
        print('KNOWN-FINDING: property=%s %s (seen in %d obligations, e.g. %s)' % (prop, desc, len(os_), os_[0].oid))
    for o in unknown_viol:
        print('VIOLATION property=%s replay=%s' % (prop, o.replay_path))
        print('  obligation %s: %s' % (o.oid, o.detail[:400]))
        if o.signature:
            print('  signature %s' % json.dumps(o.signature, sort_keys=True))
    # obligations the wall-time budget of the run did not reach are reported as such, not as evaluated obligations
    skipped = [o for o in obligations if o.verdict == INCONCLUSIVE and (o.detail or '').startswith('not explored')]
    if skipped:
        sk = set(id(o) for o in skipped)
        obligations = [o for o in obligations if id(o) not in sk]
    inconcl = [o for o in obligations if o.verdict == INCONCLUSIVE]
    errs = [o for o in obligations if o.verdict == ERROR]
    disch = [o for o in obligations if o.verdict == DISCHARGED]
    samples = []
    # a few of each verdict, written out
    for group, cap in ((viol, 8), (inconcl, 6), (disch, 8)):
        for o in group[:cap]:
            samples.append(o.as_sample())
    cov = dict(
        evaluations=len(obligations),
        distinct_nontrivial=len(set(o.oid for o in obligations if o.nontrivial)),
        rule=rule or 'one evaluation = one solver obligation (condition/query over symbolic inputs); non-trivial = '
                     'its reachability twin/witness showed that the asserted point is reached on a success path',
        samples=samples,
        obligations=len(obligations),
        discharged=len(disch),
        inconclusive=[dict(id=o.oid, reason=o.detail[:200]) for o in inconcl][:200],
        inconclusive_count=len(inconcl),
        violated=len(viol),
        violated_known=len(viol) - len(unknown_viol),
        harness_errors=[dict(id=o.oid, reason=o.detail[:300]) for o in errs][:50] + [dict(id='run', reason=str(e)[:300]) for e in errors],
        paths_explored=sum(o.paths for o in obligations),
        solver_time_s=round(sum(o.solver_s for o in obligations), 2),
        cpu_time_s=round(sum(o.wall_s for o in obligations), 2),
        functions_encoded=sorted(functions),
        bounds=bounds or {},
        engines=sorted(set(o.engine for o in obligations)),
        exhaustive=False,
        trusted_base=['CrossHair 0.0.110 + engine patches (vf/chpatches.py)', 'z3 5.1.0', 'vf/wirespec.py (reference written from docs/encoding.rst)'],
    )
    xcs = [o.desc['solver_crosscheck'] for o in obligations if isinstance(getattr(o, 'desc', None), dict) and o.desc.get('solver_crosscheck')]
    if xcs:
        cov['solver_crosscheck'] = dict(
            what="sampled 'unsat' answers of the in-process z3 re-decided by the z3 4.8.12 and cvc5 1.0.3 binaries (20 s each); 'sat' from either is a harness error",
            obligations_sampled=len(xcs), unsat_queries_rechecked=sum(x['unsat_queries_rechecked'] for x in xcs),
            z3_4_8_12_unsat=sum(x['z3_4_8_12']['unsat'] for x in xcs), z3_4_8_12_inconclusive=sum(x['z3_4_8_12']['inconclusive'] for x in xcs),
            cvc5_1_0_3_unsat=sum(x['cvc5_1_0_3']['unsat'] for x in xcs), cvc5_1_0_3_inconclusive=sum(x['cvc5_1_0_3']['inconclusive'] for x in xcs),
            disagreements=sum(x['disagreements'] for x in xcs))
    if skipped or budget_total():
        cov['wall_time_budget'] = dict(budget_s=budget_total(), generated_but_not_explored=len(skipped),
                                       note='queries are generated for the whole bound and explored most-expensive / rotated first until the budget is used; '
                                            'the rest is outside this run (raise VF_BUDGET_S to go further); VERIF_SEED rotates the start')
    if extra:
        cov.update(extra)
    ev = dict(property_id=prop, tier=tier, seed=seed(), level=level, coverage=cov, assumptions=list(assumptions),
              wall_s=round(time.time() - t0, 2), violations=len(unknown_viol))
    os.makedirs(EVID, exist_ok=True)
    target = os.path.join(EVID, '%s.json' % prop)
    if os.environ.get('VF_ONLY') or os.environ.get('VF_REPO'):
        os.makedirs(WORK, exist_ok=True)
        target = os.path.join(WORK, 'dev-evidence-%s.json' % prop)     # partial / scratch-tree development runs never touch evidence/
    with open(target, 'w') as f:
        json.dump(ev, f, indent=1, sort_keys=True, default=str)
    print('%s %s: obligations=%d discharged=%d violated=%d (known %d) inconclusive=%d errors=%d paths=%d wall=%.1fs%s' % (
        prop, tier, len(obligations), len(disch), len(viol), len(viol) - len(unknown_viol), len(inconcl),
        len(errs) + len(errors), cov['paths_explored'], time.time() - t0, (' not-reached-within-budget=%d' % len(skipped)) if skipped else ''))
    if errs or errors:
        for o in errs[:10]:
            print('HARNESS-ERROR %s: %s' % (o.oid, o.detail[:500]), file=sys.stderr)
        for e in errors:
            print('HARNESS-ERROR run: %s' % e, file=sys.stderr)
    if unknown_viol:
        return 1
    if errs or errors:
        return 2
    return 0


def run_pool(jobs, fn, workers=None):
    """jobs: list; fn(job) -> result; runs in threads (each job launches a subprocess)."""
    workers = workers or NCPU
    out = [None] * len(jobs)
    with cf.ThreadPoolExecutor(max_workers=workers) as ex:
        futs = {ex.submit(fn, j): i for i, j in enumerate(jobs)}
        for fu in cf.as_completed(futs):
            out[futs[fu]] = fu.result()
    return out


def sh(cmd, timeout=None, cwd=None, env=None, input=None):
    e = dict(os.environ)
    if env:
        e.update(env)
    try:
        r = subprocess.run(cmd, capture_output=True, text=True, timeout=timeout, cwd=cwd, env=e, input=input)
        return r.returncode, r.stdout, r.stderr
    except subprocess.TimeoutExpired as ex:
        return 124, (ex.stdout or b'').decode('utf8', 'replace') if isinstance(ex.stdout, bytes) else (ex.stdout or ''), 'timeout'


def fingerprint(text):
    return hashlib.sha1(text.encode('utf8')).hexdigest()[:12]


_T0 = time.time()


def budget_total():
    if STASH is not None:
        return None                      # first (quick-tier) pass of a thorough run is always complete
    v = os.environ.get('VF_BUDGET_S')
    if v is not None:
        total = float(v)
    elif os.environ.get('VF_TIER') == 'thorough':
        total = 600.0
    else:
        return None
    return total if total > 0 else None


def budget_s():
    """wall-time budget left for dispatching new obligations (thorough tier; VF_BUDGET_S overrides, 0 = unlimited)"""
    total = budget_total()
    if total is None:
        return None
    return max(1.0, total - (time.time() - _T0))


def only(conds):
    """development aid: VF_ONLY=<substring> restricts a run to the obligations whose id contains it.
    Second pass of a two-pass thorough run: obligations already discharged by the first (quick-tier) pass are dropped."""
    if DONE:
        conds = [c for c in conds if c.oid not in DONE and not (getattr(c, 'twin', False) and c.desc.get('twin_of') in DONE)]
    pat = os.environ.get('VF_ONLY')
    if not pat:
        return conds
    return [c for c in conds if pat in c.oid]
