"""C16 (i) and C17 harness library (model level).

C17: the same types described as isar elements (+ patch actions) and as prophy text give models with identical wire
layout; constants used as sizes are symbolic.  The XML *text* layer (expat) is outside: elements are built directly.
C16 (i): declarations placed in an included file vs. all in one file give the same layouts.
"""
import xml.etree.ElementTree as ET


def _layout(nodes, name):
    from prophyc import model
    n = [x for x in nodes if getattr(x, 'name', None) == name and isinstance(x, (model.Struct, model.Union))][0]
    ms = []
    for m in n.members:
        ms.append((m.byte_size, m.alignment, getattr(m, 'padding', None), getattr(m, 'numeric_size', None), bool(getattr(m, 'bound', None)),
                   bool(getattr(m, 'size', None)), bool(getattr(m, 'greedy', False)), bool(getattr(m, 'optional', False))))
    return (n.byte_size, n.alignment, n.kind, ms)


def _member(name, type_, dim=None, optional=False):
    attrs = {'name': name, 'type': type_}
    if optional:
        attrs['optional'] = 'true'
    e = ET.Element('member', attrs)
    if dim is not None:
        ET.SubElement(e, 'dimension', dim)
    return e


def _struct(name, members, tag='struct'):
    s = ET.Element(tag, {'name': name})
    for m in members:
        s.append(m)
    return s


def base_isar():
    """struct X in isar form: plain, fixed [N], limited <N> with implicit sizer y_len, dynamic with typed sizer, optional"""
    return _struct('X', [
        _member('a', 'u8'),
        _member('x', 'u16', {'size': 'N'}),
        _member('y', 'u32', {'isVariableSize': 'true', 'size': 'N'}),
        _member('n', 'u8'),
        _member('z', 'u16', {'variableSizeFieldName': '@n'}),
        _member('o', 'u16', optional=True),
        _member('t', 'u64'),
    ])


BASE_TEXT = 'struct X { u8 a; u16 x[N]; u32 y<N>; u8 n; u16 z<@n>; u16* o; u64 t; };'

# (patch lines for isar, equivalent prophy text, struct name to compare)   -- %s: limited y keeps size N (prophy text cannot say
# "limited with explicit sizer", the reference for those members is built with model.StructMember directly)
CASES = [
    ('none', [], None, 'X'),
    ('type', ['X type a u64'], ('type', 'a', 'u64'), 'X'),
    ('insert', ['X insert 1 ins u32'], ('insert', 1, 'ins', 'u32'), 'X'),
    ('remove', ['X remove o'], ('remove', 'o'), 'X'),
    ('dynamic', ['X dynamic x n'], ('dynamic', 'x', 'n'), 'X'),
    ('static', ['X static z 3'], ('static', 'z', '3'), 'X'),
    ('limited', ['X limited x a'], ('limited', 'x', 'a'), 'X'),
    ('greedy', ['X remove t', 'X greedy o'], ('greedy-last',), 'X'),
    ('greedy-sized', ['X remove t', 'X remove o', 'X remove z', 'X remove n', 'X remove y', 'X remove y_len', 'X greedy x'], ('greedy-sized',), 'X'),
    ('greedy-limited', ['X remove t', 'X remove o', 'X remove z', 'X remove n', 'X greedy y'], ('greedy-limited',), 'X'),
    ('rename-field', ['X rename a b'], ('rename', 'a', 'b'), 'X'),
    ('rename-node', ['X rename Y'], None, 'Y'),
    ('absent-target', ['Nope type a u64', 'Nope remove q'], None, 'X'),
]
FAILING = [['X type nosuch u64'], ['X remove nosuch'], ['X limited x nosuch'], ['X bogus a'], ['X insert zz ins u32'], ['X static x'], ['X struct']]


def reference_members(case):
    """the expected model members of X after the patch, written out independently (prophy-text semantics)"""
    from prophyc import model
    M = model.StructMember
    ms = [M('a', 'u8'), M('x', 'u16', size='N'), M('y_len', 'u32'), M('y', 'u32', bound='y_len', size='N'), M('n', 'u8'), M('z', 'u16', bound='n'),
          M('o', 'u16', optional=True), M('t', 'u64')]
    k = case[2]
    if k is None:
        return ms
    if k[0] == 'type':
        ms[0] = M('a', 'u64')
    elif k[0] == 'insert':
        ms.insert(1, M('ins', 'u32'))
    elif k[0] == 'remove':
        ms = [m for m in ms if m.name != 'o']
    elif k[0] == 'dynamic':
        ms[1] = M('x', 'u16', bound='n')          # note: sizer n comes later in the struct; layout-wise irrelevant at model level
    elif k[0] == 'static':
        ms[5] = M('z', 'u16', size='3')
    elif k[0] == 'limited':
        ms[1] = M('x', 'u16', bound='a', size='N')
    elif k[0] == 'greedy-last':
        ms = [m for m in ms if m.name != 't']
        ms[-1] = M('o', 'u16', greedy=True)
    elif k[0] == 'greedy-sized':
        ms = [M('a', 'u8'), M('x', 'u16', greedy=True)]        # the trailing 'T x[N]' idiom: greedy drops the size
    elif k[0] == 'greedy-limited':
        ms = ms[:3] + [M('y', 'u32', greedy=True)]             # greedy drops bound and size; the former counter stays a plain field
    elif k[0] == 'rename':
        ms[0] = M('b', 'u8')
    return ms


def front_ends_agree(case_idx, n):
    """isar elements + patch  vs  independently written members / prophy text: identical layout for every N"""
    from prophyc import model, patch
    from prophyc.parsers import isar
    from . import exprharness as X
    case = CASES[case_idx]
    nodes = [model.Constant('N', str(n)), isar.make_struct(base_isar())]
    pd = {}
    for line in case[1]:
        w = line.split()
        pd.setdefault(w[0], []).append(patch.Action(w[1], w[2:]))
    patch.patch(nodes, pd)
    nodes, _ = model.evaluate_model(nodes)
    got = _layout(nodes, case[3])
    ref_nodes = [model.Constant('N', str(n)), model.Struct(case[3], reference_members(case))]
    ref_nodes, _ = model.evaluate_model(ref_nodes)
    want = _layout(ref_nodes, case[3])
    if got != want:
        return False
    if case[0] == 'none':
        # the prophy-text front-end on the equivalent text (N bound to the same symbolic value)
        tnodes, errors = X.run_parser(BASE_TEXT, {'N': n})
        if errors:
            return False
        tnodes, _ = model.evaluate_model([model.Constant('N', str(n))] + tnodes)
        if _layout(tnodes, 'X') != want:
            return False
    return True


def inapplicable_rule_fails(idx, n):
    """a patch rule that cannot be applied fails the compilation (raises), it is never silently skipped"""
    from prophyc import model, patch
    from prophyc.parsers import isar
    nodes = [model.Constant('N', str(n)), isar.make_struct(base_isar())]
    pd = {}
    for line in FAILING[idx]:
        w = line.split()
        pd.setdefault(w[0], []).append(patch.Action(w[1], w[2:]))
    try:
        patch.patch(nodes, pd)
    except Exception:
        return True
    return False


DIMS = [
    # (isar dimension attrs, message?, expected (bound?, size?, extra sizer member before?))
    ({'size': 'N'}, False, (False, True, None)),
    ({'size': 'N', 'size2': 'M'}, False, (False, True, None)),
    ({'isVariableSize': 'true', 'size': 'N'}, False, (True, True, 'u32')),
    ({'isVariableSize': 'true', 'size': 'N', 'variableSizeFieldType': 'u8', 'variableSizeFieldName': 'cnt'}, False, (True, True, 'u8')),
    ({'isVariableSize': 'true', 'size': 'N'}, True, (True, False, 'u32')),
    ({'variableSizeFieldName': '@pre'}, False, (True, False, None)),
    ({'isVariableSize': 'true', 'size': 'N', 'size2': 'M'}, False, (True, True, 'u32')),      # limited, two dimensions: storage N*M
    ({'isVariableSize': 'true', 'size': 'N', 'size2': 'M'}, True, (True, False, 'u32')),       # message tail: dynamic, no storage limit
    ({'size': 'N', 'size2': 'M'}, True, (False, True, None)),
    # the array is not the last member (a 4th element True appends a member after it): in a message every variable-size
    # array is dynamic, in a struct it stays limited
    ({'isVariableSize': 'true', 'size': 'N'}, True, (True, False, 'u32'), True),
    ({'isVariableSize': 'true', 'size': 'N'}, False, (True, True, 'u32'), True),
    ({'size': 'N'}, True, (False, True, None), True),
]


def dimension_forms(idx, n, m):
    """every documented <dimension> form maps to the documented member form, with the numeric size N (N*M for size2)"""
    from prophyc import model
    from prophyc.parsers import isar
    attrs, as_message, (bound, sized, sizer_t) = DIMS[idx][:3]
    has_post = len(DIMS[idx]) > 3 and DIMS[idx][3]
    s = _struct('X', [_member('pre', 'u8'), _member('v', 'u16', attrs)] + ([_member('post', 'u8')] if has_post else []),
                tag='message' if as_message else 'struct')
    node = isar.make_struct(s, last_member_array_is_dynamic=as_message)
    nodes, _ = model.evaluate_model([model.Constant('N', str(n)), model.Constant('M', str(m)), node])
    ms = list(node.members)
    if has_post:
        if ms[-1].name != 'post':
            return False
        ms = ms[:-1]
    v = ms[-1]
    if bool(v.bound) != bound or bool(v.size) != sized:
        return False
    if sizer_t is not None:
        if len(ms) != 3 or ms[1].type_name != sizer_t or v.bound != ms[1].name:
            return False
    elif len(ms) != 2:
        return False
    if sized:
        want = n * m if 'size2' in attrs else n
        if v.numeric_size != want or v.byte_size != 2 * want:
            return False
    return True


NEG = [('-1', -1), ('-2', -2), ('-2147483648', -2 ** 31), ('-0xA', -10), ('-0x80000000', -2 ** 31), ('0x7F', 127), ('-0b101', -5), ('12', 12)]


def negative_enum_value(sel):
    """isar converts a negative enumerator (decimal or based literal) to its unsigned 32-bit image and leaves the
    others alone (checked on concrete texts only: string formatting)"""
    from prophyc.parsers import isar
    text, v = NEG[sel]
    e = ET.Element('enum', {'name': 'E'})
    ET.SubElement(e, 'enum-member', {'name': 'E_A', 'value': text})
    node = isar.make_enum(e)
    return int(node.members[0].value, 0) == (v + 2 ** 32 if v < 0 else v)


# ------------------------------------------------------------------------------------------------ C16 (i)

INC_NAMES = ['inc', 'Inner', 'E', 'N']     # a file is often named after the type / constant it holds


def include_placement(in_c, in_e, in_s, n, em, name_sel=0):
    """declarations C (const), E (enum), S (struct Inner) live in an included file or in the main file (dependency-
    respecting), T (struct Outer) always in the main file: layouts equal those of the single flat file.
    name_sel: base name of the included file - neutral, or equal to a name the file defines (only then: a file named
    after something defined elsewhere would shadow it, which is not a split of the flat schema)"""
    from prophyc import model
    iname = INC_NAMES[0]
    for k, nm in enumerate(INC_NAMES):
        if name_sel == k:
            iname = nm
    if (iname == 'Inner' and not in_s) or (iname == 'E' and not in_e) or (iname == 'N' and not in_c):
        return True
    if in_s and not (in_c and in_e):
        return True                     # Inner uses N and E_M: it can only be included together with them

    def decls():
        return dict(
            C=model.Constant('N', str(n)),
            E=model.Enum('E', [model.EnumMember('E_M', str(em)), model.EnumMember('E_Z', '0')]),
            S=model.Struct('Inner', [model.StructMember('a', 'u8'), model.StructMember('b', 'u16', size='N'), model.StructMember('e', 'E'),
                                     model.StructMember('c', 'u8', size='E_M')]),
            T=model.Struct('Outer', [model.StructMember('i', 'Inner'), model.StructMember('k', 'u32', size='N'), model.StructMember('num_of_d', 'u32'),
                                     model.StructMember('d', 'Inner', bound='num_of_d')]),
        )
    flat = decls()
    flat_nodes, flat_consts = model.evaluate_model([flat['C'], flat['E'], flat['S'], flat['T']])
    want = (_layout(flat_nodes, 'Inner'), _layout(flat_nodes, 'Outer'), flat_consts.get('N'), flat_consts.get('E_M'))
    d = decls()
    inc = [d[k] for k, f in (('C', in_c), ('E', in_e), ('S', in_s)) if f]
    inc, _ = model.evaluate_model(inc)                     # what processing the included file yields
    main = [model.Include(iname, inc), model.Include(iname, inc)] + [d[k] for k, f in (('C', in_c), ('E', in_e), ('S', in_s)) if not f] + [d['T']]
    nodes, consts = model.evaluate_model(main)
    everything = list(inc) + nodes
    got = (_layout(everything, 'Inner'), _layout(everything, 'Outer'), consts.get('N'), consts.get('E_M'))
    return got == want
