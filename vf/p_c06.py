"""C06 - Python decode is total (E1: every input byte symbolic, per input length)."""
import os
import time
from . import common as C
from . import wirespec as W
from . import family as F
from . import pyharness as H
from . import codec_e1 as X
from .chrun import run_conditions, to_obligations


def shapes_for(tier):
    fam = [s for s in F.family(tier) if not F.has_float(s)]
    return fam


def run(tier):
    t0 = time.time()
    work = C.workdir('C06')
    W.self_check()
    ftier = tier
    if tier == 'quick':
        # quick family + every optional kind with all its neighbour alignments from the richer family: the size an
        # absent optional advances by only matters when the next field is less aligned than the optional's value
        base = F.family('quick')
        have = set(s.name for s in base)
        extra = [s for s in F.family('rich') if s.name not in have and s.name.startswith('T_opt_')]
        fam = X.prepare_family('rich', work, shapes=base + extra)
        ftier = 'rich'
    else:
        fam = X.prepare_family(tier, work)
    maxL = 24 if tier == 'quick' else 40
    timeout = 90 if tier == 'quick' else 600
    conds = []
    nshapes = 0
    for s in fam['shapes']:
        if F.has_float(s):
            continue
        nshapes += 1
        size = W.type_layout(s)[0]
        valid = set()
        for prof in H.length_profiles(s):
            valid.add(len(W.encode(s, X.sample_value(s, prof), '<')))
        if tier == 'quick':
            lens = sorted(set(range(0, min(size + 3, maxL) + 1)) | set(v for v in valid if v <= 16))
            # quick: thin out long fixed prefixes (every length up to 6, then every other, always size-1, size, size+1..+2)
            keep = set(l for l in lens if l <= 6 or l % 2 == 0 or abs(l - size) <= 2 or l in valid)
            lens = [l for l in lens if l in keep]
        else:
            lens = sorted(set(range(0, min(size + 6, maxL) + 1)) | set(v for v in valid if v <= maxL))
        conds += X.write_decode_module(work, ftier, fam, s, lens, valid)
    conds = C.only(conds)
    raw = run_conditions(conds, timeout)
    obs, _ = to_obligations('C06', conds, raw, schema_text=fam['text'])
    from .chrun import concrete_reach
    concrete_reach(conds, obs)          # count-guard obligations carry a concrete sample (reachability witness)
    from .chrun import stub_validation
    nstub = stub_validation('C06', conds, obs)
    return C.finish('C06', tier, obs, t0, functions=X.FUNCS_DEC + X.FUNCS_ENC,
                    bounds=dict(family='F without float members', input_length='0..min(static size+3,%d) quick / +6,40 thorough; all bytes symbolic; both byte orders' % maxL,
                                outside='inputs longer than the bound; float members (CrossHair realises float bytes); wall-clock/RSS of the native call'),
                    assumptions=['engine patches 1-6; error-message formatting stubbed (message text is not the subject)',
                                 'reachability twin per (shape, L) where the reference says a valid encoding of that length exists'],
                    extra=dict(shapes=nshapes, formatting_stub_validation='%d concrete error-path runs of the real code without the stub (a failing one is reported with the sample as witness)' % nstub))
