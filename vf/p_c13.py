"""C13 - prophyc always terminates with outputs or a designed diagnostic (E1, unit level only - see DESIGN 4 C13):
 1. model.topological_sort terminates (fuel) on every dependency relation incl. cycles and self loops;
 2. the parser's / calc's expression actions are total and integer-valued for all values of named constants;
 3. include resolution over a stub file system terminates with a designed error, each file processed once."""
import os
import time

from . import common as C
from . import exprharness as X
from .chrun import Cond, run_conditions, to_obligations, concrete_reach

HEAD = '''# generated harness module (E1, prophyc units) -- no message-formatting stub: str(int) is semantic in the parser
from vf import pyharness as H, exprharness as X, compharness as K, acceptharness as A, robustharness as RB
H.setup(formatting_stub=True, int_str=True)
X.parser()
A.env()
TABLE = %(table)r


def explain(fn, args, kwargs):
    fam = fn.split('__')[0]
    if fam == 'tot':
        return X.explain(fn, lambda: globals()[fn](*args), TABLE)
    exc = None
    what = None
    try:
        globals()[fn](*args)
    except Exception as e:   # noqa
        exc = type(e).__name__
        if exc == 'Internal':
            what = str(e)
    d = dict(check=fam, kind=('exception:' + exc) if exc else 'assertion')
    if what:
        d['what'] = what
    return d

'''

TOTAL_EXPRS = ['A + B', 'A - B', 'A * 3', 'A / B', 'A / 2', 'A << B', 'A >> B', 'A << 3', 'A >> 2', '-A', 'A / (B - B)', '1 << B', '8 >> B',
               '(A + B) / C', 'A + 1 << 2', 'A / 0', '-A / 3', 'A * 2 / B']


def regex_obligations():
    """E3: no token regex of the real lexers has an ambiguous alternation under an unbounded repetition (vf/regexharness.py)"""
    from . import regexharness as R
    from .common import Obligation, DISCHARGED, VIOLATED, INCONCLUSIVE, ERROR
    obs = []
    pat = os.environ.get('VF_ONLY')
    n = 800
    for name, rx in R.token_regexes():
        for k, r in enumerate(R.analyse(rx)):
            oid = 'lexer-regex/%s/%d' % (name, k)
            if pat and pat not in oid:
                continue
            o = Obligation(oid, 'E3-z3', dict(check='token regex has no ambiguous starred alternation', token=name, regex=rx,
                                              symbolic='the character (0..127) two alternatives could both accept'))
            o.paths = r['queries']
            o.solver_s = r['solver_s']
            o.nontrivial = 'pairwise disjoint' in r['detail']
            if r['verdict'] == 'discharged':
                o.verdict = DISCHARGED
            elif r['verdict'] == 'inconclusive':
                o.verdict, o.detail = INCONCLUSIVE, r['detail']
            else:
                slow, txt = R.replay(rx, r['prefix'], r['witness'])
                if slow:
                    n += 1
                    o.verdict, o.replayed = VIOLATED, True
                    o.detail = '%s | %s' % (r['detail'], txt)
                    o.signature = dict(check='lexer-regex', token=name, kind='exponential-backtracking')
                    o.witness = dict(token=name, prefix=r['prefix'], char=r['witness'])
                    o.replay_path = C.write_replay('C13', n, dict(property='C13', engine='E3-z3', kind='regex', token=name, regex=rx, prefix=r['prefix'], witness=r['witness'], detail=o.detail))
                else:
                    o.verdict, o.detail = INCONCLUSIVE, 'ambiguous, but the probe input did not make the real matcher slow: %s | %s' % (r['detail'], txt)
            obs.append(o)
    return obs


def run(tier):
    t0 = time.time()
    work = C.workdir('C13')
    path = os.path.join(work, 'units.py')
    tab = []
    for e in TOTAL_EXPRS:
        tab.append((e, 'const'))
    tab += [('A / B', 'enum'), ('A << B', 'size'), ('A - B', 'size'), ('A / B', 'disc'), ('A >> B', 'enum')]
    body = [HEAD % dict(table=tab)]
    conds = []
    # 1. sort termination
    for n in ((2, 3) if tier == 'quick' else (2, 3, 4)):
        names = ['e%d' % k for k in range(n * n)]
        body.append('def sort__%d(%s) -> bool:\n    """\n    post: _\n    """\n    return K.sort_terminates(%d, [%s])\n\n'
                    % (n, ', '.join('%s: bool' % x for x in names), n, ', '.join(names)))
        conds.append(Cond(path, 'sort__%d' % n, 'sort-terminates/n%d' % n,
                          dict(check='topological_sort terminates', nodes=n, symbolic='all %d dependency bits incl. self loops and cycles' % (n * n),
                               fuel='4*n*n+8 dependency queries'), sample_args=[False] * (n * n)))
    # 1b. the whole model evaluation (sort, cross reference, stiffness, sizes) terminates on type definitions that name
    #     each other in any way, themselves included: result or ModelError, within the fuel of typedef-chain steps
    import itertools
    from . import compharness as K
    if tier == 'quick':
        mt = [('typedef',), ('typedef', 'typedef'), ('typedef', 'struct'), ('struct', 'union'), ('typedef', 'typedef', 'struct'), ('union', 'typedef', 'typedef')]
    else:
        mt = [t for r in (1, 2, 3) for t in itertools.product(K.MT_KINDS, repeat=r)]
    for kinds in mt:
        n = len(kinds)
        fn = 'mt__' + '_'.join(k[0] for k in kinds)
        rs = ['r%d' % i for i in range(n)]
        body.append('def %s(%s) -> bool:\n    """\n    pre: %s\n    post: _\n    """\n    return K.model_terminates(%r, [%s])\n\n'
                    % (fn, ', '.join('%s: int' % r for r in rs), ' and '.join('0 <= %s <= %d' % (r, n) for r in rs), kinds, ', '.join(rs)))
        conds.append(Cond(path, fn, 'model-terminates/' + '-'.join(kinds),
                          dict(check='evaluate_model terminates', kinds=list(kinds), symbolic='which definition (or the builtin u8) each of the %d definitions names; self reference and cycles included' % n,
                               fuel='50*(n+2) typedef-chain steps'), sample_args=[n] * n))
    # 1c. an accepted output directory never trips the generators' assertion
    body.append('def outdir__0(exists: bool, isdir: bool) -> bool:\n    """\n    post: _\n    """\n    return K.outdir_contract(exists, isdir)\n\n')
    conds.append(Cond(path, 'outdir__0', 'output-directory-contract',
                      dict(check='options.readable_dir accepts only what generators.base._make_path accepts', symbolic='what the file system answers for the path (exists, is a directory)'),
                      sample_args=[True, True]))
    # 1d. malformed isar elements (every subset of the attributes present) and bad patch lines end in the designed channel
    from . import robustharness as RB
    for k, el in enumerate(RB.ELEMENTS):
        ps = ['p%d' % i for i in range(8)]
        body.append('def isar__%d(%s) -> bool:\n    """\n    post: _\n    """\n    return RB.isar_element_total(%d, %s)\n\n' % (k, ', '.join('%s: bool' % p for p in ps), k, ', '.join(ps)))
        conds.append(Cond(path, 'isar__%d' % k, 'isar-element-total/' + el,
                          dict(check='isar element builders are total', element=el, symbolic='presence of every attribute of the element, its member and its dimension (8 bits)'),
                          sample_args=[True] * 8))
    for k, el in enumerate(('struct-member', 'message-member', 'typedef', 'union-member')):
        # the member conditions are split by name value and isVariableSize (each still quantifies over type, size and counter values)
        splits = [(None, None)] if k >= 2 else [(a, f) for a in range(4) for f in (False, True)]
        for a, f in splits:
            fn = 'isarval__%d' % k + ('' if a is None else '__%d_%d' % (a, int(f)))
            pre = '0 <= v0 <= 3 and 0 <= v1 <= 5 and 0 <= v2 <= 7 and 0 <= v3 <= 4' + ('' if a is None else ' and v0 == %d and flag == %r' % (a, f))
            body.append('def %s(v0: int, v1: int, v2: int, v3: int, flag: bool) -> bool:\n    """\n    pre: %s\n    post: _\n    """\n'
                        '    return RB.isar_values_total(%d, v0, v1, v2, v3, flag)\n\n' % (fn, pre, k))
            conds.append(Cond(path, fn, 'isar-values-total/' + el + ('' if a is None else '/name%d-var%d' % (a, int(f))),
                              dict(check='isar attribute values (valid, empty, dangling, wrong-kind references) stay in the designed channel through all back-ends', element=el,
                                   symbolic='value selectors for name, type, size / discriminator / primitive type, counter name; isVariableSize'),
                              sample_args=[a or 0, 0, 0, 0, bool(f)]))
    body.append('def patchline__0(nwords: int, action_sel: int, params_sel: int, target_sel: int) -> bool:\n    """\n'
                '    pre: 0 <= nwords <= 2 and 0 <= action_sel < %d and 0 <= params_sel < %d and 0 <= target_sel <= 2\n    post: _\n    """\n'
                '    return RB.patch_line_total(nwords, action_sel, params_sel, target_sel)\n\n' % (len(RB.ACTIONS), len(RB.PARAMS)))
    conds.append(Cond(path, 'patchline__0', 'patch-line-total',
                      dict(check='patch lines are total', symbolic='number of words on the line, action keyword, parameter list, target definition'), sample_args=[2, 0, 2, 0]))
    body.append('def xmltext__0(sel: int) -> bool:\n    """\n    pre: 0 <= sel < %d\n    post: _\n    """\n    return RB.xml_text_total(sel)\n\n' % len(RB.XML_TEXTS))
    conds.append(Cond(path, 'xmltext__0', 'malformed-xml-text', dict(check='malformed XML text ends in the designed channel', symbolic='selector over %d concrete documents (expat is C code)' % len(RB.XML_TEXTS)),
                      sample_args=[len(RB.XML_TEXTS) - 1]))
    # 2. expression actions total
    for idx, (e, pos) in enumerate(tab):
        # array-size / enumerator / discriminator positions hash or format the value (CrossHair realises it): small range there
        rng = '-2**33 <= a <= 2**33' if pos == 'const' else '-6 <= a <= 6'
        body.append('def tot__%d(a: int, b: int, c: int) -> bool:\n    """\n    pre: %s and -3 <= b <= 5 and -2**33 <= c <= 2**33\n'
                    '    post: _\n    """\n    return X.check_total(TABLE[%d][0], a, b, c, TABLE[%d][1])\n\n' % (idx, rng, idx, idx))
        conds.append(Cond(path, 'tot__%d' % idx, 'expr-total/%s/%s' % (pos, e.replace(' ', '')),
                          dict(check='expression actions total', expression=e, position=pos,
                               symbolic='A (%s), C in [-2^33, 2^33], B in [-3, 5] (zero divisors and negative shift counts included)' % rng), sample_args=[4, 3, 7]))
    # 2b. the parser's member validation (_validate_struct_members, sizer lookup and sizer type check) is total: whatever the
    #     member description, it records designed errors and never lets an internal exception out (the coherence of what it
    #     accepts is C12's subject and is ignored here)
    from . import acceptharness as A
    ext = A.FORMS.index('ext')
    for a in ([0] if tier == 'quick' else range(len(A.TYPES))):
        for sp in range(4):
            fn = 'val__%d__%d' % (a, sp)
            body.append('def %s(t1: int, f1: int, has_post: bool, sizer_t: int) -> bool:\n    """\n    pre: 0 <= t1 < %d and 0 <= f1 < %d and 0 <= sizer_t < %d\n    post: _\n    """\n'
                        '    A.struct_coherent(%d, %d, t1, f1, has_post, %d, sizer_t, False)\n    return True\n\n' % (fn, len(A.TYPES), len(A.FORMS), len(A.SIZER_T), a, ext, sp))
            conds.append(Cond(path, fn, 'member-validation-total/%s-ext/sizer-pos%d' % (A.TYPES[a], sp),
                              dict(check='struct member validation is total', first_member='%s ext' % A.TYPES[a], sizer_position=sp,
                                   symbolic='second member type and form, trailing member, sizer type (integer, float, enum, struct, typedef)'), sample_args=[0, 0, True, 2]))
    # 3. include resolution
    inc = ['i%d' % k for k in range(9)]
    body.append('def incl__3(%s, ex1: bool, ex2: bool, d1: bool, d2: bool) -> bool:\n    """\n    post: _\n    """\n'
                '    return K.includes_resolve([%s], ex1, ex2, d1, d2)\n\n' % (', '.join('%s: bool' % x for x in inc), ', '.join(inc)))
    conds.append(Cond(path, 'incl__3', 'include-resolution/3-files',
                      dict(check='include resolution terminates with designed errors', symbolic='9 include bits (self includes and cycles allowed), existence and directory of 2 files'),
                      sample_args=[False, True, False, False, False, True, False, False, False, True, True, False, True]))
    with open(path, 'w') as f:
        f.write(''.join(body))
    conds = C.only(conds)
    raw = run_conditions(conds, 240 if tier == 'quick' else 1200)
    obs, _ = to_obligations('C13', conds, raw)
    concrete_reach(conds, obs)
    obs += regex_obligations()
    return C.finish('C13', tier, obs, t0,
                    functions=['prophyc.model.topological_sort', 'prophyc.model.evaluate_model (typedef chains, self references)', 'lexer token regexes of prophy.Parser and calc.Calc (E3)',
                               'prophyc.options.readable_dir vs prophyc.generators.base._make_path', 'prophyc.parsers.prophy.Parser.p_expression_* / p_constant_def / p_enum_member / p_positive_expression / p_union_member',
                               'prophyc.calc.Calc actions / p_error', 'prophyc.file_processor.FileProcessor (process_main, process_leaf, _process_file, push_dir, swap_dir)',
                               'prophyc.parsers.prophy.Parser.p_include_def'],
                    bounds=dict(sort='every dependency relation on <= %d nodes' % (3 if tier == 'quick' else 4), expressions='%d expression shapes x positions' % len(tab),
                                includes='3 files, every include matrix, 2 directories',
                                outside='lexing / LALR parsing of arbitrary text, malformed XML (expat), argparse, patch-file text, wall-clock of the real process'),
                    assumptions=['file system replaced by an in-memory table (os.path.exists, os.path.abspath, codecs.open)', 'fuel bound 4*n*n+8 (acyclic worst case < n*n)',
                                 'the claim is limited to these units; whole-program symbolic text input is not encodable (DESIGN 4 C13)'])
