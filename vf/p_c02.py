"""C02 - Python decode inverts encode and consumes exactly the message (E1: pure round trip, all values symbolic)."""
import time
from . import common as C
from . import codec_e1 as X

BOUNDS = dict(family='F (vf/family.py)', array_lengths='{0,1,2} per array (limited<N>: also N); greedy tails only in length '
              'combinations whose tail ends on the message alignment (the documented exception is excluded by construction)',
              values='full range of every integer field; enum: any enumerator; presence and union arm symbolic; both byte orders',
              outside='floats symbolic, schemas outside F, arrays longer than 2')


def run(tier):
    t0 = time.time()
    obs, conds, fam, _ = X.run_value_checks('C02', tier, ['rt'])
    # shifted counters (Python API only: prophy.array(..., shift=k)); classes and conditions in vf/cntshift.py
    import os
    from . import cntshift, chrun
    path = os.path.join(os.path.dirname(os.path.abspath(__file__)), 'cntshift.py')
    sconds = C.only([chrun.Cond(path, fn, 'api-shift/count-roundtrip/' + fn, dict(shape='api-shift', check='shifted array counter round trip', symbolic='count n + byte order'),
                                sample_args=sample) for fn, sample in cntshift.CONDS])
    if sconds:
        raw = chrun.run_conditions(sconds, 60 if tier == 'quick' else 300)
        sobs, _ = chrun.to_obligations('C02', sconds, raw, replays_start=900)
        chrun.concrete_reach(sconds, sobs)
        obs += sobs
    return C.finish('C02', tier, obs, t0, functions=X.FUNCS_ENC + X.FUNCS_DEC, bounds=BOUNDS,
                    assumptions=['no reference to wirespec except to decide which greedy length combinations end aligned',
                                 'engine patches 1-6 (vf/chpatches.py)', 'float fields carry concrete sample values'],
                    extra=dict(shapes=len(fam['shapes']), signature_rule=X.explain_note()))
