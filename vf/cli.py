"""./check <ID> --tier quick|thorough   |   ./check replay <path>"""
import argparse
import importlib
import os
import sys
import time
import traceback

from . import common as C

PROPS = {
    'C01': 'vf.p_c01', 'C02': 'vf.p_c02', 'C06': 'vf.p_c06', 'C19': 'vf.p_c19',
    'C04': 'vf.p_c04', 'C10': 'vf.p_c10', 'C11': 'vf.p_c11',
    'C03': 'vf.p_c03', 'C05': 'vf.p_c05', 'C07': 'vf.p_c07', 'C08': 'vf.p_c08', 'C09': 'vf.p_c09',
    'C12': 'vf.p_c12', 'C13': 'vf.p_c13', 'C14': 'vf.p_c14', 'C15': 'vf.p_c15', 'C16': 'vf.p_c16', 'C17': 'vf.p_c17',
}
# properties whose obligations are generated from the schema family: their thorough space is far larger than any budget
TWO_PASS = ('C01', 'C02', 'C03', 'C05', 'C06', 'C07', 'C08', 'C09', 'C19')


def main():
    ap = argparse.ArgumentParser()
    ap.add_argument('prop')
    ap.add_argument('path', nargs='?')
    ap.add_argument('--tier', default=None)
    a = ap.parse_args()
    tier = a.tier or os.environ.get('VERIF_TIER') or 'quick'
    os.environ['VF_TIER'] = tier
    if a.prop == 'replay':
        from . import replay
        sys.exit(replay.main(a.path))
    if a.prop not in PROPS:
        print('unknown property %s (claimed: %s)' % (a.prop, ', '.join(sorted(PROPS))), file=sys.stderr)
        sys.exit(2)
    mod = importlib.import_module(PROPS[a.prop])
    import glob
    for p in glob.glob(os.path.join(C.REPLAYS, a.prop + '-*.json')):
        os.remove(p)                     # replay files belong to one run
    t0 = time.time()
    try:
        if tier == 'thorough' and os.environ.get('VF_TWO_PASS', '1') != '0' and not os.environ.get('VF_ONLY'):
            # thorough = the complete quick tier, then the deeper bounds under the wall-time budget (thorough dominates quick)
            C.STASH = []
            os.environ['VF_TIER'] = 'quick'
            mod.run('quick')
            C.PRE, C.STASH = C.STASH, None
            if a.prop in TWO_PASS:
                # family-based: an id denotes the same query in both tiers, so what the first pass discharged is not repeated
                C.DONE = set(o.oid for o in C.PRE if o.verdict == C.DISCHARGED)
            C.REPLAY_OFFSET = 5000
            C._T0 = time.time()          # the budget is that of the second pass
            os.environ['VF_TIER'] = 'thorough'
        rc = mod.run(tier)
    except C.HarnessError as e:
        rc = C.finish(a.prop, tier, [], t0, errors=[str(e)])
    except Exception:
        traceback.print_exc()
        rc = C.finish(a.prop, tier, [], t0, errors=[traceback.format_exc()[-800:]])
    sys.exit(rc)


if __name__ == '__main__':
    main()
