"""C17 - front-ends agree: isar (+patch) and prophy text give the same wire layout (E1, model level)."""
import os
import time

from . import common as C
from . import frontharness as FH
from .chrun import Cond, run_conditions, to_obligations, concrete_reach

HEAD = '''# generated harness module (E1, front-ends)
from vf import pyharness as H, frontharness as FH, exprharness as X
H.setup(formatting_stub=False, int_str=True)
X.parser()


def explain(fn, args, kwargs):
    exc = None
    try:
        globals()[fn](*args)
    except Exception as e:   # noqa
        exc = type(e).__name__
    fam, idx = fn.split('__')
    what = {'agree': lambda: FH.CASES[int(idx)][0], 'fail': lambda: ' '.join(FH.FAILING[int(idx)][0].split()[1:2]), 'dim': lambda: sorted(FH.DIMS[int(idx)][0]),
            'neg': lambda: 'negative-enum'}[fam]()
    return dict(check='front-end-' + fam, case=str(what), kind=('exception:' + exc) if exc else 'layout-differs')

'''


def run(tier):
    t0 = time.time()
    work = C.workdir('C17')
    path = os.path.join(work, 'frontends.py')
    body = [HEAD]
    conds = []
    for i, case in enumerate(FH.CASES):
        body.append('def agree__%d(n: int) -> bool:\n    """\n    pre: 1 <= n <= 1000\n    post: _\n    """\n    return FH.front_ends_agree(%d, n)\n\n' % (i, i))
        conds.append(Cond(path, 'agree__%d' % i, 'agree/%s' % case[0], dict(check='isar (+patch) vs independently written members / prophy text', patch=case[1], symbolic='array-size constant N'),
                          sample_args=[3]))
    for i, lines in enumerate(FH.FAILING):
        body.append('def fail__%d(n: int) -> bool:\n    """\n    pre: 1 <= n <= 1000\n    post: _\n    """\n    return FH.inapplicable_rule_fails(%d, n)\n\n' % (i, i))
        conds.append(Cond(path, 'fail__%d' % i, 'inapplicable/%s' % '_'.join(lines[0].split()[1:]), dict(check='inapplicable patch rule fails the compilation', patch=lines, symbolic='N'), sample_args=[3]))
    for i, d in enumerate(FH.DIMS):
        body.append('def dim__%d(n: int, m: int) -> bool:\n    """\n    pre: 1 <= n <= 1000 and 1 <= m <= 8\n    post: _\n    """\n    return FH.dimension_forms(%d, n, m)\n\n' % (i, i))
        conds.append(Cond(path, 'dim__%d' % i, 'dimension/%d-%s/%s' % (i, 'message' if d[1] else 'struct', '+'.join(sorted(d[0]))), dict(check='<dimension> form -> member form and numeric size', attrs=d[0], symbolic='N, M'), sample_args=[3, 2]))
    body.append('def neg__0(sel: int) -> bool:\n    """\n    pre: 0 <= sel <= 7\n    post: _\n    """\n    return FH.negative_enum_value(sel)\n\n')
    conds.append(Cond(path, 'neg__0', 'negative-enumerator', dict(check='negative enumerator -> unsigned 32-bit image', symbolic='selector over concrete values -1, -2, -2^31, -5 (string formatting)'), sample_args=[0]))
    with open(path, 'w') as f:
        f.write(''.join(body))
    conds = C.only(conds)
    raw = run_conditions(conds, 120 if tier == 'quick' else 600)
    obs, _ = to_obligations('C17', conds, raw)
    concrete_reach(conds, obs)
    return C.finish('C17', tier, obs, t0,
                    functions=['prophyc.parsers.isar.make_struct_members / make_struct / make_enum', 'prophyc.patch.patch / _apply and every action (_type _insert _remove _dynamic _greedy _static _limited _struct _rename)',
                               'prophyc.model.evaluate_model', 'prophyc.parsers.prophy.Parser semantic actions (base text)'],
                    bounds=dict(schema='one struct with plain / fixed[N] / limited<N> / ext-sized / optional members', patch_rules='%d applicable rule sets + %d inapplicable ones' % (len(FH.CASES), len(FH.FAILING)),
                                dimension_forms=len(FH.DIMS), values='N in 1..1000, M in 1..8',
                                outside='XML text (expat), patch-file text; negative enumerators for symbolic values (string formatting) - concrete values only'),
                    assumptions=['isar elements are built as ElementTree objects by the harness', 'expected members after each patch rule are written out independently in vf/frontharness.py'])
