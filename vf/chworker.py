"""CrossHair worker: analyse the named functions of one harness module, one JSON line per function.

usage: python -m vf.chworker <module.py> <per_condition_timeout_s> <fn> [<fn> ...]
The harness module sees VF_SYMBOLIC=1 and installs the engine patches itself.
"""
import os
import sys
import json
import time
import importlib.util
import collections
import traceback


def load(path):
    name = 'vfh_' + os.path.splitext(os.path.basename(path))[0]
    spec = importlib.util.spec_from_file_location(name, path)
    mod = importlib.util.module_from_spec(spec)
    sys.modules[name] = mod
    spec.loader.exec_module(mod)
    return mod


def analyze_one(mod, fn, timeout):
    import crosshair.core_and_libs  # noqa: F401  (registers library models)
    from crosshair.core import analyze_function, run_checkables
    from crosshair.options import AnalysisOptionSet, AnalysisKind
    t0 = time.time()
    stats = collections.Counter()
    try:
        opts = AnalysisOptionSet(per_condition_timeout=timeout, report_all=True, analysis_kind=[AnalysisKind.PEP316],
                                 stats=stats, max_uninteresting_iterations=10 ** 9, per_path_timeout=max(10.0, timeout / 2))
        checkables = analyze_function(getattr(mod, fn), opts)
        if not checkables:
            out = dict(fn=fn, state='NO_CONDITIONS', message='no conditions found')
        else:
            msgs = run_checkables(checkables)
            if len(msgs) == 0:
                out = dict(fn=fn, state='NO_MESSAGE', message='')
            else:
                m = msgs[0]
                out = dict(fn=fn, state=m.state.name, message=m.message)
                if len(msgs) > 1:
                    out['extra'] = [(x.state.name, x.message[:200]) for x in msgs[1:]]
    except BaseException:
        out = dict(fn=fn, state='WORKER_EXC', message=traceback.format_exc()[-1500:])
    out['paths'] = stats.get('num_paths', 0)
    out['wall'] = round(time.time() - t0, 3)
    return out


def serve():
    """persistent worker: one JSON request per stdin line {module, fn, timeout, key} -> one JSON reply line"""
    os.environ['VF_SYMBOLIC'] = '1'
    sys.setrecursionlimit(5000)
    import z3
    seed = int(os.environ.get('VERIF_SEED', '0') or 0)
    if seed:
        z3.set_param('smt.random_seed', seed % (2 ** 31))
    mods = {}
    real_out = os.fdopen(os.dup(1), 'w')
    os.dup2(2, 1)             # anything the code under analysis prints goes to stderr, replies stay clean
    for line in sys.stdin:
        line = line.strip()
        if not line:
            continue
        req = json.loads(line)
        try:
            if req['module'] not in mods:
                mods[req['module']] = load(req['module'])
            out = analyze_one(mods[req['module']], req['fn'], req['timeout'])
        except BaseException:
            out = dict(fn=req['fn'], state='IMPORT_ERR', message=traceback.format_exc()[-1500:], paths=0, wall=0)
        out['key'] = req.get('key')
        real_out.write(json.dumps(out) + '\n')
        real_out.flush()


def main():
    if sys.argv[1] == '--serve':
        return serve()
    path, timeout = sys.argv[1], float(sys.argv[2])
    fns = sys.argv[3:]
    os.environ['VF_SYMBOLIC'] = '1'
    sys.setrecursionlimit(5000)
    try:
        mod = load(path)
    except BaseException:
        for fn in fns:
            print(json.dumps(dict(fn=fn, state='IMPORT_ERR', message=traceback.format_exc()[-1500:], paths=0, wall=0)))
        return
    import crosshair.core_and_libs  # noqa: F401  (registers library models)
    from crosshair.core import analyze_function, run_checkables
    from crosshair.options import AnalysisOptionSet, AnalysisKind
    import z3
    seed = int(os.environ.get('VERIF_SEED', '0') or 0)
    if seed:
        z3.set_param('smt.random_seed', seed % (2 ** 31))
    for fn in fns:
        t0 = time.time()
        stats = collections.Counter()
        try:
            opts = AnalysisOptionSet(per_condition_timeout=timeout, report_all=True, analysis_kind=[AnalysisKind.PEP316],
                                     stats=stats, max_uninteresting_iterations=10 ** 9, per_path_timeout=max(10.0, timeout / 2))
            checkables = analyze_function(getattr(mod, fn), opts)
            if not checkables:
                out = dict(fn=fn, state='NO_CONDITIONS', message='no conditions found')
            else:
                msgs = run_checkables(checkables)
                # one condition per harness function
                if len(msgs) == 0:
                    out = dict(fn=fn, state='NO_MESSAGE', message='')
                else:
                    m = msgs[0]
                    out = dict(fn=fn, state=m.state.name, message=m.message)
                    if len(msgs) > 1:
                        out['extra'] = [(x.state.name, x.message[:200]) for x in msgs[1:]]
        except BaseException:
            out = dict(fn=fn, state='WORKER_EXC', message=traceback.format_exc()[-1500:])
        out['paths'] = stats.get('num_paths', 0)
        out['wall'] = round(time.time() - t0, 3)
        out['stats'] = {k: v for k, v in stats.items() if isinstance(v, (int, float))}
        print(json.dumps(out))
        sys.stdout.flush()


if __name__ == '__main__':
    main()
