"""wirespec: an independent statement of docs/encoding.rst.

Written from the document; shares no code with prophy / prophyc.  One abstract schema AST, the static layout
rules, a canonical encoder that works over an abstract "integer -> bytes" operation (so the same code produces
Python ints, CrossHair symbolic ints or z3 bit-vector terms), a byte map (which position belongs to which scalar)
and renderers to .prophy text.

Value trees:  scalar/enum -> int (float scalars: float);  struct -> dict name -> value (explicit sizer fields are
omitted, they are derived);  union -> (arm_name, value);  arrays -> list;  bytes fields -> list of ints;
optional -> None | value.
"""

FIXED, DYNAMIC, UNLIMITED = 0, 1, 2


class Scalar(object):
    def __init__(s, name, size, signed=False, flt=False):
        s.name, s.size, s.signed, s.flt = name, size, signed, flt

    def decl(s):
        return {'r32': 'float', 'r64': 'double'}.get(s.name, s.name)

    def __repr__(s):
        return s.name


SC = {n: Scalar(n, sz, sg) for n, sz, sg in
      [('u8', 1, 0), ('u16', 2, 0), ('u32', 4, 0), ('u64', 8, 0), ('i8', 1, 1), ('i16', 2, 1), ('i32', 4, 1), ('i64', 8, 1)]}
SC['r32'] = Scalar('r32', 4, flt=True)
SC['r64'] = Scalar('r64', 8, flt=True)


class Enum(object):
    def __init__(s, name, members):
        s.name, s.members = name, members   # [(name, value)]

    def __repr__(s):
        return s.name


class Struct(object):
    def __init__(s, name, fields):
        s.name, s.fields = name, fields

    def __repr__(s):
        return s.name


class Union(object):
    def __init__(s, name, arms):
        s.name, s.arms = name, arms          # [(disc, name, type)]

    def __repr__(s):
        return s.name


class Typedef(object):
    def __init__(s, name, type):
        s.name, s.type = name, type

    def __repr__(s):
        return s.name


class Field(object):
    """form: 'plain' | 'optional' | ('fixed', N) | 'dynamic' | ('limited', N) | 'greedy' | ('ext', sizer_name)
    bytes=True -> a `bytes` field (elements are raw octets)"""

    def __init__(s, name, type, form='plain', bytes=False):
        s.name, s.type, s.form, s.bytes = name, type, form, bytes

    def __repr__(s):
        return '%s:%s:%s' % (s.name, 'bytes' if s.bytes else s.type, s.form)


def strip(t):
    while isinstance(t, Typedef):
        t = t.type
    return t


def rup(x, a):
    return (x + a - 1) // a * a


# ---------------------------------------------------------------- static layout

def type_layout(t):
    """-> (size, alignment, stiffness); size is the size with all variable parts empty (exact for FIXED only)"""
    t = strip(t)
    if isinstance(t, Scalar):
        return t.size, t.size, FIXED
    if isinstance(t, Enum):
        return 4, 4, FIXED
    if isinstance(t, Union):
        al = max([4] + [type_layout(a[2])[1] for a in t.arms])
        sz = rup(al + max(type_layout(a[2])[0] for a in t.arms), al)
        return sz, al, FIXED
    if isinstance(t, Struct):
        items = struct_items(t)
        al = max([it['align'] for it in items] or [1])
        stiff = FIXED
        for it in items:
            stiff = max(stiff, it['stiff'])
        off = 0
        for i, it in enumerate(items):
            off = rup(off, block_align(items, i))
            off += it['size']
        return rup(off, al), al, stiff
    raise TypeError(t)


def struct_items(t):
    """expand fields into wire items (implicit counters become items of their own)"""
    out = []
    for f in t.fields:
        esz, eal, est = (1, 1, FIXED) if f.bytes else type_layout(f.type)
        form = f.form
        if form == 'plain':
            out.append(dict(f=f, kind='plain', size=esz, align=eal, stiff=est, var=est != FIXED))
        elif form == 'optional':
            al = max(4, eal)
            out.append(dict(f=f, kind='optional', size=al + esz, align=al, stiff=FIXED, var=False))
        elif form[0] == 'fixed':
            out.append(dict(f=f, kind='fixed', n=form[1], size=form[1] * esz, align=eal, stiff=FIXED, var=False))
        elif form == 'dynamic':
            out.append(dict(f=f, kind='counter', size=4, align=4, stiff=FIXED, var=False, counts=f.name))
            out.append(dict(f=f, kind='dynamic', size=0, align=eal, stiff=DYNAMIC, var=True))
        elif form[0] == 'limited':
            out.append(dict(f=f, kind='counter', size=4, align=4, stiff=FIXED, var=False, counts=f.name))
            out.append(dict(f=f, kind='limited', n=form[1], size=form[1] * esz, align=eal, stiff=FIXED, var=False))
        elif form == 'greedy':
            out.append(dict(f=f, kind='greedy', size=0, align=eal, stiff=UNLIMITED, var=True))
        elif form[0] == 'ext':
            out.append(dict(f=f, kind='ext', sizer=form[1], size=0, align=eal, stiff=DYNAMIC, var=True))
        else:
            raise ValueError(form)
    return out


def block_align(items, i):
    """alignment required for item i: its own, or - if it starts a block (previous item variable-size) - the
    greatest alignment of the block (up to and including the next variable-size item)"""
    a = items[i]['align']
    if i > 0 and items[i - 1]['var']:
        j = i
        while True:
            a = max(a, items[j]['align'])
            if items[j]['var'] or j == len(items) - 1:
                break
            j += 1
    return a


def sizer_names(t):
    return set(f.form[1] for f in t.fields if isinstance(f.form, tuple) and f.form[0] == 'ext')


# ---------------------------------------------------------------- encoding over abstract byte operations

class PyOps(object):
    """bytes as Python ints (works unchanged on CrossHair symbolic ints)"""
    zero = 0

    @staticmethod
    def int_bytes(v, size, signed, e):
        return list(int.to_bytes(v, size, 'little' if e == '<' else 'big', signed=bool(signed)))

    @staticmethod
    def float_bytes(v, size, e):
        import struct as _s
        return list(_s.pack(e + ('f' if size == 4 else 'd'), v))

    @staticmethod
    def octet(v):
        return v


def encode(t, v, e, ops=PyOps, bmap=None, path='', final_pad_out=None):
    """-> list of byte values.  bmap (optional list) receives one entry per byte:
    None for padding, or (scalar_path, index_of_byte_within_scalar_in_memory_order, width, role)"""
    t = strip(t)

    def emit_scalar(out, bs, p, role):
        out += bs
        if bmap is not None:
            bmap.extend((p, i, len(bs), role) for i in range(len(bs)))

    def emit_pad(out, n):
        out += [ops.zero] * n
        if bmap is not None:
            bmap.extend([None] * n)

    if isinstance(t, Scalar):
        out = []
        bs = ops.float_bytes(v, t.size, e) if t.flt else ops.int_bytes(v, t.size, t.signed, e)
        emit_scalar(out, bs, path, 'value')
        return out
    if isinstance(t, Enum):
        out = []
        emit_scalar(out, ops.int_bytes(v, 4, False, e), path, 'enum')
        return out
    if isinstance(t, Union):
        sz, al, _ = type_layout(t)
        disc, _, at = next(a for a in t.arms if a[1] == v[0])
        out = []
        emit_scalar(out, ops.int_bytes(disc, 4, False, e), path + '.#disc', 'discriminator')
        emit_pad(out, al - 4)
        out += encode(at, v[1], e, ops, bmap, path + '.' + v[0])
        emit_pad(out, sz - len(out))
        return out
    if isinstance(t, Struct):
        items = struct_items(t)
        _, al, _ = type_layout(t)
        out = []
        for i, it in enumerate(items):
            emit_pad(out, rup(len(out), block_align(items, i)) - len(out))
            f = it['f']
            k = it['kind']
            p = path + '.' + f.name
            if k == 'counter':
                emit_scalar(out, ops.int_bytes(len(v[it['counts']]), 4, False, e), p + '.#count', 'counter')
            elif k == 'plain':
                if any(x.get('sizer') == f.name for x in items):   # explicit sizer: value derived from its arrays
                    arrs = [v[x['f'].name] for x in items if x.get('sizer') == f.name]
                    assert len(set(len(a) for a in arrs)) == 1
                    ft = strip(f.type)
                    emit_scalar(out, ops.int_bytes(len(arrs[0]), ft.size, ft.signed, e), p, 'counter')
                else:
                    out += encode(f.type, v[f.name], e, ops, bmap, p)
            elif k == 'optional':
                if v[f.name] is None:
                    emit_pad(out, it['size'])
                else:
                    emit_scalar(out, ops.int_bytes(1, 4, False, e), p + '.#flag', 'flag')
                    emit_pad(out, it['align'] - 4)
                    out += encode(f.type, v[f.name], e, ops, bmap, p)
            else:
                elems = v[f.name]
                start = len(out)
                for j, x in enumerate(elems):
                    if f.bytes:
                        emit_scalar(out, [ops.octet(x)], '%s[%d]' % (p, j), 'octet')
                    else:
                        out += encode(f.type, x, e, ops, bmap, '%s[%d]' % (p, j))
                if k == 'fixed':
                    assert len(elems) == it['n']
                if k in ('fixed', 'limited'):
                    emit_pad(out, it['size'] - (len(out) - start))
        if final_pad_out is not None:
            final_pad_out.append(rup(len(out), al) - len(out))
        emit_pad(out, rup(len(out), al) - len(out))
        return out
    raise TypeError(t)


def tail_pad_after_greedy(t, v):
    """None if the message has no greedy tail; else the number of padding bytes that follow the last greedy element
    (0 <=> 'the greedy tail ends on the enclosing message's alignment boundary')"""
    t = strip(t)
    if not isinstance(t, Struct) or not t.fields:
        return None
    last = t.fields[-1]
    if last.form == 'greedy':
        inner = 0
    elif last.form == 'plain' and not last.bytes and type_layout(last.type)[2] == UNLIMITED:
        inner = tail_pad_after_greedy(last.type, v[last.name])
    else:
        return None
    fp = []
    encode(t, v, '<', final_pad_out=fp)
    return inner + fp[0]


def offsets(t, v=None, ops=PyOps):
    """byte offset of each item of a struct (for the given value; default: all variable parts empty).
    -> list of (item, offset) plus total size"""
    t = strip(t)
    items = struct_items(t)
    _, al, _ = type_layout(t)
    off = 0
    res = []
    for i, it in enumerate(items):
        off = rup(off, block_align(items, i))
        res.append((it, off))
        f = it['f']
        if it['var']:
            if v is not None and f.name in v:
                if it['kind'] == 'plain':
                    off += len(encode(f.type, v[f.name], '<', ops))
                else:
                    off += sum(1 if f.bytes else len(encode(f.type, x, '<', ops)) for x in v[f.name])
        else:
            off += it['size']
    return res, rup(off, al)


# ---------------------------------------------------------------- rendering to .prophy text

def tname(t):
    return t.decl() if isinstance(t, Scalar) else t.name


def collect_types(roots):
    """named helper types in dependency order"""
    seen = []

    def visit(t):
        if isinstance(t, Scalar):
            return
        if t in seen:
            return
        if isinstance(t, Typedef):
            visit(t.type)
        elif isinstance(t, Union):
            for _, _, a in t.arms:
                visit(a)
        elif isinstance(t, Struct):
            for f in t.fields:
                if not f.bytes:
                    visit(f.type)
        seen.append(t)

    for r in roots:
        visit(r)
    return seen


def render(types):
    out = []
    for t in types:
        if isinstance(t, Enum):
            out.append('enum %s { %s };' % (t.name, ', '.join('%s = %d' % m for m in t.members)))
        elif isinstance(t, Typedef):
            out.append('typedef %s %s;' % (tname(t.type), t.name))
        elif isinstance(t, Union):
            out.append('union %s { %s };' % (t.name, ' '.join('%d: %s %s;' % (d, tname(a), n) for d, n, a in t.arms)))
        elif isinstance(t, Struct):
            fs = []
            for f in t.fields:
                tn = 'bytes' if f.bytes else tname(f.type)
                form = f.form
                if form == 'plain':
                    fs.append('%s %s;' % (tn, f.name))
                elif form == 'optional':
                    fs.append('%s* %s;' % (tn, f.name))
                elif form[0] == 'fixed':
                    fs.append('%s %s[%d];' % (tn, f.name, form[1]))
                elif form == 'dynamic':
                    fs.append('%s %s<>;' % (tn, f.name))
                elif form[0] == 'limited':
                    fs.append('%s %s<%d>;' % (tn, f.name, form[1]))
                elif form == 'greedy':
                    fs.append('%s %s<...>;' % (tn, f.name))
                elif form[0] == 'ext':
                    fs.append('%s %s<@%s>;' % (tn, f.name, form[1]))
            out.append('struct %s { %s };' % (t.name, ' '.join(fs)))
    return '\n'.join(out) + '\n'


# ---------------------------------------------------------------- self-validation against docs/encoding.rst

def _hexlist(s):
    return [int(x, 16) for x in s.replace('[', ' ').replace(']', ' ').split()]


def doc_examples():
    """(name, type, value, bytes) for every worked example of docs/encoding.rst, little endian"""
    u8, u16, u32, u64 = SC['u8'], SC['u16'], SC['u32'], SC['u64']
    ex = []

    def add(name, t, v, hx):
        ex.append((name, t, v, _hexlist(hx)))
    add('fixed u16[4]', Struct('X', [Field('x', u16, ('fixed', 4))]), {'x': [1, 2, 3, 4]}, '01 00 02 00 03 00 04 00')
    add('dynamic u16<>', Struct('X', [Field('x', u16, 'dynamic')]), {'x': [1, 2]}, '02 00 00 00 01 00 02 00')
    add('limited u16<4>', Struct('X', [Field('x', u16, ('limited', 4))]), {'x': [1, 2]}, '02 00 00 00 01 00 02 00 00 00 00 00')
    add('greedy', Struct('X', [Field('x', u16, 'greedy')]), {'x': [1, 2]}, '01 00 02 00')
    add('ext sized', Struct('X', [Field('size', u8), Field('x', u8, ('ext', 'size')), Field('y', u16, ('ext', 'size'))]),
        {'x': [4, 5], 'y': [6, 7]}, '02 04 05 00 06 00 07 00')
    add('optional set', Struct('X', [Field('x', u32, 'optional')]), {'x': 1}, '01 00 00 00 01 00 00 00')
    add('optional unset', Struct('X', [Field('x', u32, 'optional')]), {'x': None}, '00 00 00 00 00 00 00 00')
    nested = Struct('Nested', [Field('n1', u16), Field('n2', u16)])
    add('struct', Struct('X', [Field('x', nested), Field('y', u32)]), {'x': {'n1': 1, 'n2': 2}, 'y': 3}, '01 00 02 00 03 00 00 00')
    two = Struct('TwoInts', [Field('a1', u16), Field('a2', u16)])
    un = Union('X', [(0, 'x', u32), (1, 'y', two)])
    add('union arm0', un, ('x', 1), '00 00 00 00 01 00 00 00')
    add('union arm1', un, ('y', {'a1': 2, 'a2': 3}), '01 00 00 00 02 00 03 00')
    add('int padding', Struct('X', [Field('a', u8), Field('b', u16)]), {'a': 1, 'b': 2}, '01 [00] 02 00')
    n3 = Struct('Nested', [Field('n1', u16), Field('n2', u32), Field('n3', u16)])
    add('composite padding', Struct('X', [Field('x', u64), Field('y', u32), Field('z', u8), Field('n', n3)]),
        {'x': 1, 'y': 2, 'z': 3, 'n': {'n1': 4, 'n2': 5, 'n3': 6}},
        '01 00 00 00 00 00 00 00 02 00 00 00 03 00 00 00 04 00 00 00 05 00 00 00 06 00 00 00 00 00 00 00')
    dd = Struct('X', [Field('x', u8, 'dynamic'), Field('y', u8, 'dynamic')])
    add('dyn array padding', dd, {'x': [1], 'y': [2, 3, 4]}, '01 00 00 00 01 00 00 00 03 00 00 00 02 03 04 00')
    add('dyn array no padding', dd, {'x': [], 'y': [1, 2, 3, 4]}, '00 00 00 00 04 00 00 00 01 02 03 04')
    add('dyn u64 empty', Struct('X', [Field('x', u64, 'dynamic')]), {'x': []}, '00 00 00 00 00 00 00 00')
    add('dyn u64 one', Struct('X', [Field('x', u64, 'dynamic')]), {'x': [1]}, '01 00 00 00 00 00 00 00 01 00 00 00 00 00 00 00')
    add('optional padding', Struct('X', [Field('x', u8, 'optional'), Field('y', u8)]), {'x': 1, 'y': 2}, '01 00 00 00 01 02 00 00')
    add('optional u64', Struct('X', [Field('x', u64, 'optional')]), {'x': 1}, '01 00 00 00 00 00 00 00 01 00 00 00 00 00 00 00')
    add('union pad', Union('X', [(1, 'x', u8)]), ('x', 2), '01 00 00 00 02 00 00 00')
    u2 = Union('X', [(1, 'x', u64), (2, 'y', u8)])
    add('union u64', u2, ('x', 2), '01 00 00 00 00 00 00 00 02 00 00 00 00 00 00 00')
    add('union short arm', u2, ('y', 3), '02 00 00 00 00 00 00 00 03 00 00 00 00 00 00 00')
    add('fields after dynamic', Struct('X', [Field('a', u8, 'dynamic'), Field('b', u8), Field('c', u32), Field('d', u8, 'dynamic'),
                                             Field('e', u8), Field('f', u64)]),
        {'a': [1], 'b': 2, 'c': 3, 'd': [4], 'e': 5, 'f': 6},
        '01 00 00 00 01 00 00 00 02 00 00 00 03 00 00 00 01 00 00 00 04 00 00 00 05 00 00 00 00 00 00 00 06 00 00 00 00 00 00 00')
    return ex


def self_check():
    """re-derive every worked example of the document; raises AssertionError on the first mismatch"""
    n = 0
    for name, t, v, want in doc_examples():
        got = encode(t, v, '<')
        assert got == want, 'wirespec disagrees with docs/encoding.rst example %r: %r != %r' % (name, got, want)
        # big-endian twin: same layout, scalars mirrored
        bm = []
        be = encode(t, v, '>', bmap=bm)
        assert len(be) == len(got) and len(bm) == len(got)
        for i, m in enumerate(bm):
            if m is None:
                assert be[i] == 0 and got[i] == 0
            else:
                _, k, w, _ = m
                assert be[i] == got[i - k + (w - 1 - k)]
        n += 1
    return n


if __name__ == '__main__':
    print('doc examples re-derived:', self_check())


# ---------------------------------------------------------------- abstract (schema-symbolic) layout, "Layer A"

def rup_sym(x, a):
    """round x up to a multiple of a (a is a concrete power of two on every path)"""
    r = x % a
    if r == 0:
        return x
    return x + (a - r)


def abstract_items(members):
    """members: list of dict(form, size, align, kind[, n]) describing member *types* (size/align may be symbolic ints,
    kind is the stiffness of the member's type).  -> wire items as in struct_items()"""
    out = []
    for i, m in enumerate(members):
        form = m['form']
        sz, al, kd = m['size'], m['align'], m['kind']
        if form == 'plain':
            out.append(dict(member=i, kind='plain', size=sz, align=al, stiff=kd, var=kd != FIXED))
        elif form == 'optional':
            oal = al if al > 4 else 4
            out.append(dict(member=i, kind='optional', size=oal + sz, align=oal, stiff=FIXED, var=False))
        elif form == 'fixed':
            out.append(dict(member=i, kind='fixed', size=m['n'] * sz, align=al, stiff=FIXED, var=False))
        elif form == 'dynamic':
            out.append(dict(member=i, kind='counter', size=4, align=4, stiff=FIXED, var=False))
            out.append(dict(member=i, kind='dynamic', size=0, align=al, stiff=DYNAMIC, var=True))
        elif form == 'limited':
            out.append(dict(member=i, kind='counter', size=4, align=4, stiff=FIXED, var=False))
            out.append(dict(member=i, kind='limited', size=m['n'] * sz, align=al, stiff=FIXED, var=False))
        elif form == 'greedy':
            out.append(dict(member=i, kind='greedy', size=0, align=al, stiff=UNLIMITED, var=True))
        else:
            raise ValueError(form)
    return out


def abstract_struct_layout(members):
    """documented layout of a struct of the given members, all variable parts empty.
    -> dict(size, align, kind, offsets=[offset of each wire item], items)"""
    items = abstract_items(members)
    al = 1
    kind = FIXED
    for it in items:
        if it['align'] > al:
            al = it['align']
        if it['stiff'] > kind:
            kind = it['stiff']
    off = 0
    offs = []
    for i, it in enumerate(items):
        a = it['align']
        if i > 0 and items[i - 1]['var']:
            j = i
            while True:
                if items[j]['align'] > a:
                    a = items[j]['align']
                if items[j]['var'] or j == len(items) - 1:
                    break
                j += 1
        off = rup_sym(off, a)
        offs.append(off)
        off = off + it['size']
    return dict(size=rup_sym(off, al), align=al, kind=kind, offsets=offs, items=items)


def abstract_union_layout(arms):
    """arms: list of dict(size, align) of FIXED arm types"""
    al = 4
    mx = 0
    for a in arms:
        if a['align'] > al:
            al = a['align']
        if a['size'] > mx:
            mx = a['size']
    return dict(size=rup_sym(al + mx, al), align=al, kind=FIXED)
