"""Engine-side patch layer for CrossHair 0.0.110 (DESIGN 2.1).  Nothing here touches /repo.

install(formatting_stub=..., linear_to_bytes=...) is called by harness modules *only* when they are analysed
(env VF_SYMBOLIC=1); a concrete replay imports the same harness module without any of this.
"""
import builtins

_installed = {}


def install(formatting_stub=True, linear_to_bytes=True):
    if _installed.get('base'):
        return
    _installed['base'] = True
    import crosshair.core_and_libs  # noqa: F401  (registers the library models we override)
    import crosshair.core as _core
    from crosshair.core import realize
    from crosshair.tracers import NoTracing
    from crosshair.libimpl import builtinslib as _bl
    from crosshair.libimpl.builtinslib import SymbolicValue, AnySymbolicStr
    import crosshair.enforce as _enf
    from crosshair.enforce import WithEnforcement

    # 1. builtin setattr(): run property setters with tracing ON
    _orig_setattr = builtins.setattr

    def _setattr(obj, name, value):
        with NoTracing():
            if isinstance(obj, SymbolicValue):
                obj = realize(obj)
            if type(name) is AnySymbolicStr:
                name = realize(name)
            desc = None
            for klass in type(obj).__mro__:
                if name in klass.__dict__:
                    desc = klass.__dict__[name]
                    break
            if isinstance(desc, property) and desc.fset is not None:
                fset = desc.fset
            else:
                return _orig_setattr(obj, name, value)
        return fset(obj, value)

    _core._PATCH_REGISTRATIONS[builtins.setattr] = _setattr

    # 2. enforce.manual_constructor mis-dispatches __init__ for metaclass calls
    def _manual_constructor(typ):
        def manually_construct(*a, **kw):
            obj = WithEnforcement(typ.__new__)(typ, *a, **kw)
            with NoTracing():
                ok = isinstance(obj, typ)
                init = type(obj).__init__ if ok else None
            if ok:
                WithEnforcement(init)(obj, *a, **kw)
            return obj
        return manually_construct

    _enf.manual_constructor = _manual_constructor

    # 3. prophy's metaclasses define __eq__ -> generated classes unhashable; CrossHair keys caches by class
    import prophy.generators as _g
    _g._generator_base.__hash__ = type.__hash__
    _g.enum_generator.__hash__ = type.__hash__

    # 4. SymbolicBytes.ljust realises every byte
    def ljust(self, width, fillchar=b' '):
        n = len(self)
        if width <= n:
            return self
        return self + fillchar * (width - n)

    _bl.SymbolicBytes.ljust = ljust

    _installed['int_repr'] = _bl.SymbolicInt.__repr__        # the library's digit-by-digit rendering (used by patch 8's fallback)
    if formatting_stub:
        _stub_formatting(_core, _bl, NoTracing)
    if linear_to_bytes:
        _linear_to_bytes(_bl, NoTracing)


def _stub_formatting(_core, _bl, NoTracing):
    """5. error-message formatting must not concretise symbolic values (codec / API harnesses only)"""
    from crosshair.util import CrossHairValue

    def _fmt(self, fmt=''):
        return '<sym>'

    def _repr(self):
        return '<sym>'

    _bl.SymbolicInt.__format__ = _fmt
    _bl.SymbolicInt.__repr__ = _repr
    _bl.SymbolicInt.__str__ = _repr

    def _has_sym(objs):
        with NoTracing():
            for o in objs:
                if isinstance(o, CrossHairValue):
                    return True
                if isinstance(o, (tuple, list)) and any(isinstance(x, CrossHairValue) for x in o):
                    return True
            return False

    orig_format = _core._PATCH_REGISTRATIONS[str.format]
    orig_mod = _core._PATCH_REGISTRATIONS[str.__mod__]
    orig_bformat = _core._PATCH_REGISTRATIONS[builtins.format]

    def _str_format(self, /, *a, **kw):
        if _has_sym(a) or _has_sym(kw.values()):
            return self
        if _has_sym([self]):
            return orig_format(self, *a, **kw)
        with NoTracing():
            return self.format(*a, **kw)

    def _str_mod(self, other):
        if _has_sym([other]):
            return self
        if _has_sym([self]):
            return orig_mod(self, other)
        with NoTracing():          # (the library model re-enters the '%' interception -> unbounded recursion)
            return self % other

    def _format(obj, format_spec=""):
        if _has_sym([obj]):
            return "<sym>"
        if _has_sym([format_spec]):
            return orig_bformat(obj, format_spec)
        with NoTracing():
            return format(obj, format_spec)

    _core._PATCH_REGISTRATIONS[str.format] = _str_format
    _core._PATCH_REGISTRATIONS[str.__mod__] = _str_mod
    _core._PATCH_REGISTRATIONS[builtins.format] = _format


def _linear_to_bytes(_bl, NoTracing):
    """6. linear byte decomposition for SymbolicInt.to_bytes (definitional extension instead of div/mod chains)"""
    import z3
    from crosshair.statespace import context_statespace
    from crosshair.core import realize as _realize
    _MISSING = _bl._MISSING

    def to_bytes(self, length=_MISSING, byteorder=_MISSING, *, signed=False):
        if length is _MISSING:
            length = 1
        if byteorder is _MISSING:
            byteorder = "big"
        if not isinstance(length, int) or not isinstance(byteorder, str) or not isinstance(signed, bool):
            raise TypeError
        length = _realize(length)
        if signed:
            half = (256 ** length) >> 1
            if self < -half or self >= half:
                raise OverflowError
            if self < 0:
                self = 256 ** length + self
        else:
            if self < 0 or self >= 256 ** length:
                raise OverflowError
        with NoTracing():
            space = context_statespace()
            if not hasattr(self, 'var'):
                return int(self).to_bytes(length, byteorder)
            u = space.uniq()
            digits = [z3.Int('tb%s_%d' % (u, i)) for i in range(length)]
            for d in digits:
                space.add(z3.And(d >= 0, d <= 255))
            space.add(self.var == z3.Sum([d * (256 ** i) for i, d in enumerate(digits)]))
            arr = [_bl.SymbolicInt(d) for d in digits]
            if _realize(byteorder) == "big":
                arr.reverse()
            return _bl.SymbolicBytes(arr)

    _bl.SymbolicInt.to_bytes = to_bytes


def exact_pow2_truediv():
    """7. int / (concrete power of two) for |int| < 2**53 is *exact* in binary64, so the real-number model is not an
    approximation there and need not cap the verdict at 'unknown'.  (E3 lemma vf/p_c04.py: fp_division_lemma.)
    Any further float arithmetic on the result falls back to CrossHair's capped RealBasedSymbolicFloat."""
    import z3
    from crosshair.tracers import NoTracing
    from crosshair.libimpl import builtinslib as _bl
    from crosshair.libimpl.builtinslib import SymbolicValue

    class ExactRealFloat(_bl.RealBasedSymbolicFloat):
        def __init__(self, smtvar, typ=float):
            SymbolicValue.__init__(self, smtvar, typ)          # no cap_result_at_unknown()

    orig = _bl.SymbolicInt.__truediv__

    def __truediv__(self, other):
        with NoTracing():
            exact = type(other) is int and other in (1, 2, 4, 8, 16, 32, 64) and hasattr(self, 'var')
        if exact and -(2 ** 53) < self < 2 ** 53:
            with NoTracing():
                return ExactRealFloat(z3.ToReal(self.var) / z3.RealVal(other))
        return orig(self, other)

    _bl.SymbolicInt.__truediv__ = __truediv__

    # int(<exact real>) must stay symbolic (the library model realises every non-int symbolic)
    import crosshair.core as _core
    orig_int = _core._PATCH_REGISTRATIONS[int]
    _MISSING = _bl._MISSING

    def _int(val=0, base=_MISSING):
        with NoTracing():
            exact = type(val) is ExactRealFloat and base is _MISSING
            if exact:
                return val.__int__()
            from crosshair.util import CrossHairValue
            if not isinstance(val, CrossHairValue) and not isinstance(base, CrossHairValue):
                return int(val) if base is _MISSING else int(val, base)       # concrete: natively, untraced
        return orig_int(val) if base is _MISSING else orig_int(val, base)

    _core._PATCH_REGISTRATIONS[int] = _int


def int_str_roundtrip():
    """8. str(symbolic int) forks once per decimal digit (the library model builds the digits with div/mod); prophyc
    stores every evaluated constant as str(value) and reads it back with int().  str(i) now returns a string object
    that remembers i: int(str(i)) == i is returned directly (exact for every int i), truthiness is True (a decimal
    rendering is never empty); any *other* string operation computes the digits exactly as the library model does."""
    import crosshair.core_and_libs  # noqa: F401
    import crosshair.core as _core
    from crosshair.tracers import NoTracing, ResumedTracing
    from crosshair.libimpl import builtinslib as _bl
    from crosshair.util import CrossHairValue
    orig_repr = _installed.get('int_repr') or _bl.SymbolicInt.__repr__

    class IntStr(_bl.LazyIntSymbolicStr):
        def __init__(self, src):
            self._src = src
            self._cp = None

        @property
        def _codepoints(self):
            if self._cp is None:
                with ResumedTracing():
                    self._cp = orig_repr(self._src)._codepoints
            return self._cp

        @_codepoints.setter
        def _codepoints(self, v):
            self._cp = v

        def __bool__(self):
            return True

    def __repr__(self):
        with NoTracing():
            if hasattr(self, 'var'):
                return IntStr(self)
        return orig_repr(self)

    _bl.SymbolicInt.__repr__ = __repr__
    _bl.SymbolicInt.__str__ = __repr__

    orig_int = _core._PATCH_REGISTRATIONS[int]
    _MISSING = _bl._MISSING

    def _int(val=0, base=_MISSING):
        with NoTracing():
            if type(val) is IntStr and (base is _MISSING or (type(base) is int and base == 10)):
                return val._src
            if not isinstance(val, CrossHairValue) and not isinstance(base, CrossHairValue):
                return int(val) if base is _MISSING else int(val, base)
        return orig_int(val) if base is _MISSING else orig_int(val, base)

    _core._PATCH_REGISTRATIONS[int] = _int
