"""C05 - C++ full codec: get_byte_size equals bytes written; encode stays in bounds (E2).

The message object is laid out directly in memory from the IR struct types following the schema AST: vector lengths,
optional presence and union arm are concrete per query (lengths 0..3, limited arrays also limit+1), every scalar /
enum field is symbolic.  encode<E> runs into a buffer object of exactly get_byte_size() bytes: any store outside it
is reported by the engine."""
import os
import re
import time

from . import common as C
from . import wirespec as W
from . import family as F
from . import cppharness as X

CPPT = {'u8': 'uint8_t', 'u16': 'uint16_t', 'u32': 'uint32_t', 'u64': 'uint64_t', 'i8': 'int8_t', 'i16': 'int16_t', 'i32': 'int32_t', 'i64': 'int64_t',
        'r32': 'float', 'r64': 'double'}


def _cname(t):
    t0 = t
    t = W.strip(t)
    if isinstance(t, W.Scalar):
        return CPPT[t.name]
    return t.name


def _composite(t):
    return isinstance(W.strip(t), (W.Struct, W.Union))


def build_fn(t):
    """C++ `static void build(T& x, Cur& c)` mirroring cppqueries.havoc's consumption order"""
    t = W.strip(t)
    out = ['static void build(%s& x, Cur& c)\n{\n' % t.name]
    if isinstance(t, W.Union):
        out.append('    int a = c.arm();\n    switch (a)\n    {\n')
        for k, (disc, name, at) in enumerate(t.arms):
            out.append('        case %d: x.discriminator = %s::discriminator_%s;%s break;\n'
                       % (k, t.name, name, (' build(x.%s, c);' % name) if _composite(at) else ''))
        out.append('    }\n}\n')
        return ''.join(out)
    sizers = W.sizer_names(t)
    ext = {}
    for f in t.fields:
        if f.name in sizers:
            continue
        form = f.form
        comp = (not f.bytes) and _composite(f.type)
        if form == 'plain':
            if comp:
                out.append('    build(x.%s, c);\n' % f.name)
        elif form == 'optional':
            out.append('    if (c.pres()) { x.%s = %s();%s }\n' % (f.name, _cname(f.type), (' build(*x.%s, c);' % f.name) if comp else ''))
        elif form[0] == 'fixed':
            if comp:
                out.append('    for (size_t i = 0; i < %d; i++) build(x.%s[i], c);\n' % (form[1], f.name))
        else:
            if form[0] == 'ext':
                if form[1] not in ext:
                    ext[form[1]] = 'n_%s' % form[1]
                    out.append('    int %s = c.len();\n' % ext[form[1]])
                nexpr = ext[form[1]]
            else:
                nexpr = 'c.len()'
            out.append('    { int n = %s; x.%s.resize(n);%s }\n' % (nexpr, f.name, (' for (int i = 0; i < n; i++) build(x.%s[i], c);' % f.name) if comp else ''))
    out.append('}\n')
    return ''.join(out)


REPLAY5 = r'''
#include "%(stem)s.ppf.cpp"
#include <cstdio>
#include <cstdlib>
#include <cstring>
#include <string>
#include <vector>
using namespace prophy::generated;
struct Cur { std::vector<int> lens, press, arms; size_t li, pi, ai; Cur(): li(0), pi(0), ai(0) {}
             int len() { return lens.at(li++); } bool pres() { return press.at(pi++) != 0; } int arm() { return arms.at(ai++); } };
static std::vector<int> csv(const char* s) { std::vector<int> v; if (!*s || !strcmp(s, "-")) return v; const char* p = s; while (*p) { v.push_back(atoi(p)); while (*p && *p != ',') p++; if (*p) p++; } return v; }
%(builders)s
template <class T> int run(Cur& c)
{
    T* x = new T();
    build(*x, c);
    size_t g = x->get_byte_size();
    printf("gbs=%%zu ebs=%%ld", g, (long)T::encoded_byte_size);
    {
        uint8_t* out = (uint8_t*)malloc(g ? g : 1);          // exactly get_byte_size() bytes: ASan reports any overflow
        memset(out, 0, g ? g : 1);
        size_t w = x->template encode<prophy::little>(out);
        printf(" le=%%zu", w);
        printf(" lehex="); for (size_t i = 0; i < w && i < g; i++) printf("%%02x", out[i]);
        free(out);
    }
    {
        uint8_t* out = (uint8_t*)malloc(g ? g : 1);
        memset(out, 0, g ? g : 1);
        size_t w = x->template encode<prophy::big>(out);
        printf(" be=%%zu", w);
        printf(" behex="); for (size_t i = 0; i < w && i < g; i++) printf("%%02x", out[i]);
        free(out);
    }
    {
        std::vector<uint8_t> v = x->encode();
        printf(" vec=%%zu", v.size());
    }
    printf("\n");
    delete x;
    return 0;
}
int main(int argc, char** argv)
{
    if (argc < 5) return 2;
    std::string t = argv[1];
    Cur c; c.lens = csv(argv[2]); c.press = csv(argv[3]); c.arms = csv(argv[4]);
%(dispatch)s
    return 3;
}
'''


def build_replay5(chunk):
    d, stem = chunk['dir'], chunk['stem']
    exe = os.path.join(d, 'replay5')
    if os.path.exists(exe):
        return exe, None
    types = [t for t in W.collect_types(chunk['shapes']) if isinstance(W.strip(t), (W.Struct, W.Union)) and not isinstance(t, W.Typedef)]
    builders = ''.join(build_fn(t) for t in types)
    disp = ''.join('    if (t == "%s") return run<%s>(c);\n' % (s.name, s.name) for s in chunk['shapes'])
    with open(os.path.join(d, 'replay5.cpp'), 'w') as f:
        f.write(REPLAY5 % dict(stem=stem, builders=builders, dispatch=disp))
    rc, out, err = C.sh(['g++', '-std=c++11', '-O0', '-g', '-fsanitize=address,undefined', '-fno-omit-frame-pointer', '-I', X.INC, '-I', d,
                         os.path.join(d, 'replay5.cpp'), '-o', exe], timeout=900)
    if rc != 0:
        return None, (err or out)[-1500:]
    return exe, None


def confirm(chunk, shape, e, viol, _L, task_desc=None):
    exe, err = build_replay5(chunk)
    if exe is None:
        return None, 'replay5 build failed: ' + err
    d = viol['_desc']

    def j(xs):
        return ','.join(map(str, xs)) or '-'
    rc, out, err = C.sh([exe, shape, j(d['lengths']), j(d['presence']), j(d['arms'])], timeout=120,
                        env={'ASAN_OPTIONS': 'detect_leaks=0:abort_on_error=0', 'UBSAN_OPTIONS': 'print_stacktrace=0'})
    txt = 'native: rc=%s %s %s' % (rc, out.strip()[:120], (err or '').strip().splitlines()[1:2])
    m = re.search(r'gbs=(\d+) ebs=(-?\d+)', out)
    asan = 'AddressSanitizer' in (err or '')
    if asan:
        return True, txt
    if not m:
        return None, txt
    g, ebs = int(m.group(1)), int(m.group(2))
    ws = [int(x) for x in re.findall(r' (?:le|be|vec)=(\d+)', out)]
    bad = any(w != g for w in ws) or (ebs >= 0 and ebs != g)
    if viol.get('cls') == 'compat':
        # canonical-encoding comparison: the natively built object has default (zero / first enumerator) scalar values
        fam = dict((s.name, s) for s in chunk['shapes'])
        ref = default_reference(fam[shape], d)
        hx = dict(re.findall(r' (lehex|behex)=([0-9a-f]*)', out))
        bad = bad or hx.get('lehex') != ref['<'] or hx.get('behex') != ref['>']
        txt += ' | canonical(le)=%s' % ref['<'][:64]
    return bad, txt


def default_reference(shape, d):
    """canonical encoding of the value the native replay builds: given structure, every scalar 0, enums first enumerator"""
    src = _Zero(d['lengths'], d['presence'], d['arms'])
    v = _zero_value(shape, src)
    return {'<': ''.join('%02x' % b for b in W.encode(shape, v, '<')), '>': ''.join('%02x' % b for b in W.encode(shape, v, '>'))}


class _Zero(object):
    def __init__(self, lens, pres, arms):
        self.lens, self.pres, self.arms = list(lens), list(pres), list(arms)


def _zero_value(t, s):
    t = W.strip(t)
    if isinstance(t, W.Scalar):
        return 0.0 if t.flt else 0
    if isinstance(t, W.Enum):
        return t.members[0][1]
    if isinstance(t, W.Union):
        a = t.arms[s.arms.pop(0)]
        return (a[1], _zero_value(a[2], s))
    out = {}
    sizers = W.sizer_names(t)
    ext = {}
    for f in t.fields:
        if f.name in sizers:
            continue
        form = f.form
        et = W.SC['u8'] if f.bytes else f.type
        if form == 'plain':
            out[f.name] = _zero_value(et, s)
        elif form == 'optional':
            out[f.name] = _zero_value(et, s) if s.pres.pop(0) else None
        else:
            if form[0] == 'fixed':
                n = form[1]
            elif form[0] == 'ext':
                if form[1] not in ext:
                    ext[form[1]] = s.lens.pop(0)
                n = ext[form[1]]
            else:
                n = s.lens.pop(0)
            out[f.name] = [_zero_value(et, s) for _ in range(n)]
    return out


def run(tier):
    t0 = time.time()
    work = C.workdir('C05')
    W.self_check()
    ftier = 'quick' if tier == 'quick' else 'thorough'
    shapes = [s for s in F.family(ftier) if F.cpp_full_eligible(s)]
    chunks = X.prepare(work, shapes, chunk=8, also_O0=True)
    errors = [c['error'] for c in chunks if c['error']]
    from . import cppqueries as Q
    tasks = []
    cap = 8 if tier == 'quick' else 40
    for c in chunks:
        if c['error']:
            continue
        for s in c['shapes']:
            for (lens, pres, arms) in Q.object_profiles(s, cap=cap):
                pid = 'n%s.p%s.a%s' % ('x'.join(map(str, lens)) or '-', ''.join(map(str, pres)) or '-', ''.join(map(str, arms)) or '-')
                tasks.append(dict(query='q_size_agreement', oid='%s/size/%s' % (s.name, pid), ll=c['ll'], chunk=c['idx'], shape=s.name, family=ftier,
                                  lens=list(lens), pres=list(pres), arms=list(arms), ends=['le', 'be'], timeout=60 if tier == 'quick' else 300,
                                  desc=dict(shape=s.name, check='size-agreement', lengths=list(lens), presence=list(pres), arms=list(arms),
                                            symbolic='every scalar / enum field of the object')))
            # the same query over the unoptimised IR (-O0) for the largest structure choices
            for (lens, pres, arms) in list(Q.object_profiles(s, cap=cap))[-(2 if tier == 'quick' else 8):]:
                pid = 'n%s.p%s.a%s' % ('x'.join(map(str, lens)) or '-', ''.join(map(str, pres)) or '-', ''.join(map(str, arms)) or '-')
                tasks.append(dict(query='q_size_agreement', oid='%s/size-O0/%s' % (s.name, pid), ll=c['ll0'], chunk=c['idx'], shape=s.name, family=ftier,
                                  lens=list(lens), pres=list(pres), arms=list(arms), ends=['le', 'be'], timeout=90 if tier == 'quick' else 400,
                                  desc=dict(shape=s.name, check='size-agreement', ir='-O0', lengths=list(lens), presence=list(pres), arms=list(arms),
                                            symbolic='every scalar / enum field of the object')))
    pat = os.environ.get('VF_ONLY')
    if pat:
        tasks = [t for t in tasks if pat in t['oid']]
    results = X.run_tasks(tasks)
    for r in results:
        for v in r.get('violations', []):
            v['_desc'] = r['desc']
    obs = X.to_obligations('C05', results, chunks, 'size-agreement', confirm=confirm)
    return C.finish('C05', tier, obs, t0,
                    functions=['X::get_byte_size() (generated)', 'message_impl<X>::encode<E> (generated)', 'message<X>::encode<E>(void*)', 'byte_size / nearest<N> / align<N>',
                               'encoder<> specialisations, encode_int, do_encode(optional)', 'X::encoded_byte_size (constant function)'],
                    bounds=dict(family='C++-eligible F (%d shapes)' % len(shapes), lengths='0..3 per vector (limited arrays: 0, 1, limit, limit+1)',
                                structure='lengths, optional presence and union arm enumerated per query (cap %d per shape)' % cap, values='all scalar / enum fields symbolic',
                                byte_orders='little, big (native == little on this host); the vector API is vector(get_byte_size()) + the same pointer encode'),
                    assumptions=['object laid out from the IR struct types and libstdc++ vector representation {begin, end, cap}', 'native replay (ASan) of every counterexample: the '
                                 'object is rebuilt through the public C++ API from the same structure choices'],
                    extra=dict(build_errors=errors[:5]), errors=errors[:3])
