"""./check replay <path>: re-run one recorded counterexample against /repo's current working tree.
exit 1 (and a VIOLATION line) if it still reproduces, 0 if the real code now behaves, 2 if the replay cannot be set up."""
import json
import os
import re

from . import common as C


def _ensure_e1_module(d):
    mod = d['module']
    os.makedirs(os.path.dirname(mod), exist_ok=True)
    with open(mod, 'w') as f:
        f.write(d['module_source'])
    # generated codec module next to the harness module (fam.py / api.py), rebuilt from the recorded schema text
    m = re.search(r"load(?:_module)?\('([^']+\.py)'\)", d['module_source'])
    if m and d.get('schema_text'):
        gen = m.group(1)
        src = gen[:-3] + '.prophy'
        with open(src, 'w') as f:
            f.write(d['schema_text'])
        rc, out, err = C.sh([C.PY, '-m', 'prophyc', '--python_out', os.path.dirname(gen), src], cwd=C.REPO, env={'PYTHONPATH': C.REPO}, timeout=600)
        if rc != 0:
            return 'prophyc rejects the recorded schema now: ' + (err or out)[-400:]
    return None


def main(path):
    from .chrun import replay_call
    d = json.load(open(path))
    prop = d.get('property', '?')
    kind = d.get('kind')
    if kind == 'e1-call':
        err = _ensure_e1_module(d)
        if err:
            print('replay set-up: ' + err)
            return 1
        rep = replay_call(d['module'], d['fn'], d['args'], d.get('kwargs'))
        print(json.dumps(rep, indent=1)[:1500])
        if rep.get('error'):
            return 2
        if not rep['ok']:
            print('VIOLATION property=%s replay=%s' % (prop, path))
            return 1
        print('does not reproduce on the current tree')
        return 0
    if kind == 'cpp-decode':
        from . import cppharness as X
        from . import wirespec as W
        work = C.workdir('replay-cpp')
        r = X.build_chunk((work, 0, [d['shape']], d['schema_text'], False))
        if r['error']:
            print('replay set-up: ' + r['error'])
            return 1
        # the replay binary dispatches on struct names: collect them from the schema text
        names = re.findall(r'struct (\w+) ', d['schema_text'])

        class _S(object):
            def __init__(self, n):
                self.name = n
        r['shapes'] = [_S(d['shape'])]
        hx = d.get('input_hex')
        if hx is None:
            print('no recorded input bytes (structure-level witness): %s' % json.dumps(d.get('violation'))[:600])
            return 2
        res = X.native_decode(r, d['shape'], d.get('endianness', 'le'), bytes.fromhex(hx))
        print(json.dumps(res, indent=1)[:1500])
        ok, txt = X.confirm_decode_violation(r, d['shape'], d.get('endianness', 'le'), d['violation'], None)
        if ok:
            print('VIOLATION property=%s replay=%s' % (prop, path))
            return 1
        print('does not reproduce on the current tree: ' + txt)
        return 0
    if kind == 'regex':
        from . import regexharness as R
        cur = dict(R.token_regexes()).get(d['token'])
        if cur is None:
            print('token %s no longer exists' % d['token'])
            return 0
        slow, txt = R.replay(cur, d['prefix'], d['witness'])
        print(txt)
        if slow:
            print('VIOLATION property=%s replay=%s' % (prop, path))
            return 1
        print('does not reproduce on the current tree')
        return 0
    print(json.dumps(d, indent=1)[:2000])
    print('this replay file is informational (kind=%s); re-run ./check %s to re-decide it' % (kind, prop))
    return 2
