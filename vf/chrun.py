"""Run E1 (CrossHair) conditions in worker processes, map outcomes to verdicts, replay counterexamples concretely."""
import ast
import json
import os
import re
import sys
import time

from . import common as C
from .common import Obligation, DISCHARGED, VIOLATED, INCONCLUSIVE, ERROR


class Cond(object):
    def __init__(self, module, fn, oid, desc, twin=False, sample_args=None, bounds=None):
        self.module, self.fn, self.oid, self.desc = module, fn, oid, desc
        self.twin = twin                  # reachability twin: must be REFUTED
        self.sample_args = sample_args    # concrete arguments for the oracle-validation / reach run
        self.bounds = bounds or {}


class _Worker(object):
    def __init__(self):
        import subprocess
        env = dict(os.environ)
        env.update({'PYTHONPATH': C.VERIF + ':' + C.REPO, 'PYTHONDONTWRITEBYTECODE': '1'})
        self.p = subprocess.Popen([C.PY, '-m', 'vf.chworker', '--serve'], stdin=subprocess.PIPE, stdout=subprocess.PIPE,
                                  stderr=subprocess.DEVNULL, text=True, cwd=C.VERIF, env=env, bufsize=1)

    def ask(self, req, wall):
        """send one request, wait at most `wall` seconds for the reply; None on timeout/death"""
        import select
        try:
            self.p.stdin.write(json.dumps(req) + '\n')
            self.p.stdin.flush()
        except (BrokenPipeError, OSError):
            return None
        deadline = time.time() + wall
        while True:
            left = deadline - time.time()
            if left <= 0:
                return None
            r, _, _ = select.select([self.p.stdout], [], [], min(left, 5.0))
            if r:
                line = self.p.stdout.readline()
                if not line:
                    return None
                line = line.strip()
                if line.startswith('{'):
                    try:
                        return json.loads(line)
                    except ValueError:
                        continue
            elif self.p.poll() is not None:
                return None

    def kill(self):
        try:
            self.p.kill()
            self.p.wait(timeout=5)
        except Exception:
            pass

    def close(self):
        try:
            self.p.stdin.close()
            self.p.wait(timeout=5)
        except Exception:
            self.kill()


def run_conditions(conds, timeout, jobs=None, cost=None):
    """-> dict cond.oid -> raw result dict (state, message, paths, wall).
    A pool of persistent worker processes pulls conditions from one queue (most expensive first)."""
    import threading
    import queue
    jobs = min(jobs or C.NCPU, max(1, len(conds)))
    timeout = min(timeout, float(os.environ.get('VF_COND_TIMEOUT_MAX', '480')))      # a run ends at most this long after its budget
    oids = [c.oid for c in conds]
    if len(set(oids)) != len(oids):
        dup = sorted(set(o for o in oids if oids.count(o) > 1))
        raise C.HarnessError('obligation ids are not unique (results would overwrite each other): %r' % dup[:5])
    budget = C.budget_s()
    deadline = (time.time() + budget) if budget else None
    order = sorted(range(len(conds)), key=(lambda i: -cost(conds[i])) if cost else (lambda i: i))
    q = queue.Queue()
    for i in order:
        q.put(conds[i])
    out = {}
    lock = threading.Lock()

    def loop():
        w = _Worker()
        while True:
            try:
                c = q.get_nowait()
            except queue.Empty:
                break
            if deadline and time.time() > deadline:
                with lock:
                    out[c.oid] = dict(fn=c.fn, state='NOT_EXPLORED', message='wall-time budget of the run exhausted', paths=0, wall=0)
                continue
            r = w.ask(dict(module=c.module, fn=c.fn, timeout=timeout, key=c.oid), wall=timeout * 2.5 + 60)
            if r is None:
                w.kill()
                w = _Worker()
                r = dict(fn=c.fn, state='CANNOT_CONFIRM', message='worker exceeded wall limit or died (treated as timeout)', paths=0,
                         wall=timeout * 2.5 + 60)
            with lock:
                out[c.oid] = r
        w.close()

    ts = [threading.Thread(target=loop) for _ in range(jobs)]
    for t in ts:
        t.start()
    for t in ts:
        t.join()
    return out


_CALL = re.compile(r'when calling (\w+)\((.*)\)\s*(?:\(which returns.*)?$', re.S)


def parse_call(message):
    """'false when calling f(1, True, x=3) (which returns False)' -> (fn, args list, kwargs dict)"""
    idx = message.find('when calling ')
    if idx < 0:
        return None
    text = message[idx + len('when calling '):].strip()
    # cut trailing "(which returns ...)"
    w = text.rfind(' (which returns')
    if w >= 0:
        text = text[:w]
    try:
        node = ast.parse(text, mode='eval').body
        if not isinstance(node, ast.Call):
            return None
        args = [ast.literal_eval(a) for a in node.args]
        kwargs = {k.arg: ast.literal_eval(k.value) for k in node.keywords}
        return node.func.id, args, kwargs
    except Exception:
        return None


def replay_call(module, fn, args, kwargs=None, timeout=120):
    """run harness function concretely (no CrossHair, no patches) -> dict(ok, value, exc, explain)"""
    payload = json.dumps(dict(args=args, kwargs=kwargs or {}))
    rc, out, err = C.sh([C.PY, '-m', 'vf.chreplay', module, fn, payload], timeout=timeout, cwd=C.VERIF,
                        env={'PYTHONPATH': C.VERIF + ':' + C.REPO, 'VF_SYMBOLIC': '0', 'PYTHONDONTWRITEBYTECODE': '1'})
    for ln in out.splitlines():
        if ln.startswith('{"replay"'):
            return json.loads(ln)['replay']
    return dict(ok=False, error='replay crashed rc=%s: %s' % (rc, (err or out)[-800:]))


def to_obligations(prop, conds, raw, engine='E1-crosshair', replays_start=0, schema_text=None):
    """Map raw CrossHair outcomes to obligations (with concrete replay of counterexamples)."""
    obs = []
    twins = {c.oid: c for c in conds if c.twin}
    nrep = [replays_start]
    by_oid = {c.oid: c for c in conds}
    # twin results first: reachable[base_oid] = True/False/None
    reach = {}
    for c in conds:
        if not c.twin:
            continue
        r = raw[c.oid]
        base = c.desc.get('twin_of')
        if r['state'] in ('POST_FAIL',):
            reach[base] = True
        elif r['state'] == 'CONFIRMED':
            reach[base] = False
        else:
            reach[base] = None

    def do_replay(c, r, o):
        call = parse_call(r['message'])
        if call is None:
            o.verdict = ERROR
            o.detail = 'counterexample could not be parsed: ' + r['message'][:300]
            return
        _, args, kwargs = call
        rep = replay_call(c.module, c.fn, args, kwargs)
        o.witness = dict(fn=c.fn, args=args, kwargs=kwargs)
        if rep.get('error'):
            o.verdict = ERROR
            o.detail = rep['error']
            return
        if rep['ok']:
            # does not reproduce on the real code without the engine -> harness/engine problem, never a VIOLATION
            o.verdict = ERROR
            o.replayed = False
            o.detail = 'counterexample does not reproduce concretely: %s -> %r' % (r['message'][:200], rep.get('value'))
            return
        o.verdict = VIOLATED
        o.replayed = True
        o.signature = rep.get('explain') or {}
        o.detail = '%s | concrete replay: value=%r exc=%r %s' % (r['message'][:200], rep.get('value'), rep.get('exc'),
                                                                  json.dumps(rep.get('explain') or {}, sort_keys=True)[:400])
        nrep[0] += 1
        o.replay_path = C.write_replay(prop, nrep[0], dict(property=prop, engine=engine, kind='e1-call', module=c.module,
                                                            module_source=open(c.module).read(), fn=c.fn, args=args, kwargs=kwargs,
                                                            desc=c.desc, message=r['message'], explain=rep.get('explain'),
                                                            schema_text=schema_text))

    for c in conds:
        r = raw[c.oid]
        if c.twin:
            continue
        o = Obligation(c.oid, engine, dict(c.desc), c.bounds)
        o.paths = r.get('paths', 0)
        o.wall_s = r.get('wall', 0)
        st = r['state']
        if st == 'CONFIRMED':
            o.verdict = DISCHARGED
        elif st in ('POST_FAIL', 'EXEC_ERR', 'POST_ERR'):
            do_replay(c, r, o)
        elif st == 'NOT_EXPLORED':
            o.verdict = INCONCLUSIVE
            o.detail = 'not explored: ' + r['message']
        elif st in ('CANNOT_CONFIRM', 'PRE_UNSAT'):
            o.verdict = INCONCLUSIVE
            o.detail = '%s: %s' % (st, r['message'][:200])
        else:
            o.verdict = ERROR
            o.detail = '%s: %s' % (st, r['message'][-800:])
        if c.oid in reach or any(t.desc.get('twin_of') == c.oid for t in twins.values()):
            rr = reach.get(c.oid)
            if rr is True:
                o.nontrivial = True
            elif rr is False:
                o.verdict = ERROR
                o.detail = 'vacuity: reachability twin was CONFIRMED (asserted point never reached) ' + o.detail
            else:
                if o.verdict == DISCHARGED:
                    o.verdict = INCONCLUSIVE
                    o.detail = 'reachability twin inconclusive'
        obs.append(o)
    return obs, nrep[0]


def concrete_reach(conds, obligations):
    """oracle validation / reachability by a concrete run of every harness function on its sample arguments:
    the run must return True (the asserted point is reached and holds) - unless the obligation was refuted anyway."""
    by = {o.oid: o for o in obligations}
    groups = {}
    for c in conds:
        if c.twin or c.sample_args is None:
            continue
        o = by.get(c.oid)
        if o is not None and o.verdict == INCONCLUSIVE and o.detail.startswith('not explored'):
            continue
        groups.setdefault(c.module, []).append(c)

    def work(item):
        module, cs = item
        payload = json.dumps([dict(fn=c.fn, args=c.sample_args) for c in cs])
        rc, out, err = C.sh([C.PY, '-m', 'vf.chreplay', module, '--batch', payload], timeout=600, cwd=C.VERIF,
                            env={'PYTHONPATH': C.VERIF + ':' + C.REPO, 'VF_SYMBOLIC': '0', 'PYTHONDONTWRITEBYTECODE': '1'})
        res = {}
        for ln in out.splitlines():
            if ln.startswith('{"batch"'):
                res = json.loads(ln)['batch']
        return cs, res, (err or '')[-400:]

    for cs, res, err in C.run_pool(list(groups.items()), work):
        for c in cs:
            o = by.get(c.oid)
            if o is None:
                continue
            r = res.get(c.fn)
            if r is None:
                if o.verdict == DISCHARGED:
                    o.verdict = ERROR
                    o.detail = 'concrete reach run crashed: ' + err
                continue
            if r.get('ok'):
                o.nontrivial = True
            elif o.verdict == DISCHARGED:
                # the solver says "holds for all values" but a concrete sample fails: engine/harness problem
                o.verdict = ERROR
                o.detail = 'concrete sample run fails although condition was confirmed: %r' % (r,)


def stub_validation(prop, conds, obligations, start=700):
    """The symbolic runs replace message formatting (str.format, %, format) by a stub, so a failure *inside* the building
    of an error message (wrong number of % arguments, a missing attribute in a format call) is cut away.  Every condition
    may therefore carry concrete samples chosen to walk its error paths (cond.stub_samples); they are run on the real
    code without CrossHair and without any stub.  A failing sample is a violation witnessed on the real code (the
    sample is the witness); passing samples change nothing.  Never turns anything into a success."""
    by = {o.oid: o for o in obligations}
    groups = {}
    for c in conds:
        if c.twin or not getattr(c, 'stub_samples', None):
            continue
        o = by.get(c.oid)
        if o is None or o.verdict not in (DISCHARGED, INCONCLUSIVE) or (o.detail or '').startswith('not explored'):
            continue
        groups.setdefault(c.module, []).append(c)

    def work(item):
        module, cs = item
        payload = json.dumps([dict(fn=c.fn, args=a, key='%s#%d' % (c.fn, i)) for c in cs for i, a in enumerate(c.stub_samples)])
        rc, out, err = C.sh([C.PY, '-m', 'vf.chreplay', module, '--batch', payload], timeout=900, cwd=C.VERIF,
                            env={'PYTHONPATH': C.VERIF + ':' + C.REPO, 'VF_SYMBOLIC': '0', 'PYTHONDONTWRITEBYTECODE': '1'})
        res = {}
        for ln in out.splitlines():
            if ln.startswith('{"batch"'):
                res = json.loads(ln)['batch']
        return cs, res

    n = start
    ran = 0
    for cs, res in C.run_pool(list(groups.items()), work):
        for c in cs:
            o = by[c.oid]
            for i, args in enumerate(c.stub_samples):
                r = res.get('%s#%d' % (c.fn, i))
                if r is None:
                    continue
                ran += 1
                if r.get('ok'):
                    continue
                was = o.verdict
                o.verdict = VIOLATED
                o.replayed = True
                o.witness = dict(fn=c.fn, args=args, found_by='concrete error-path sample (validation of the message-formatting stub)')
                o.signature = r.get('explain') or {}
                o.detail = 'symbolic run %s with message formatting stubbed; concrete error-path sample %r fails on the real code: value=%r exc=%r %s' % (
                    was, args, r.get('value'), r.get('exc'), json.dumps(r.get('explain') or {}, sort_keys=True)[:300])
                n += 1
                o.replay_path = C.write_replay(prop, n, dict(property=prop, engine='concrete-error-path-sample', kind='e1-call', module=c.module,
                                                              module_source=open(c.module).read(), fn=c.fn, args=args, kwargs={}, desc=c.desc, explain=r.get('explain')))
                break
    return ran


def boundary_probe(prop, conds, obligations, start=500):
    """Where the solver could NOT conclude (timeout / capped float model), the harness function is additionally run on
    the condition's concrete boundary samples (cond.extra_samples).  A failing sample is a violation witnessed on the
    real code; a passing one changes nothing (the obligation stays inconclusive).  Never applied to discharged ones."""
    by = {o.oid: o for o in obligations}
    n = start
    for c in conds:
        o = by.get(c.oid)
        if o is None or o.verdict != INCONCLUSIVE or not getattr(c, 'extra_samples', None):
            continue
        for args in c.extra_samples:
            rep = replay_call(c.module, c.fn, args)
            if rep.get('error') or rep.get('ok'):
                continue
            o.verdict = VIOLATED
            o.replayed = True
            o.witness = dict(fn=c.fn, args=args, found_by='concrete boundary sample (solver inconclusive)')
            o.signature = rep.get('explain') or {}
            o.detail = 'solver inconclusive (%s); concrete boundary sample %r fails: value=%r exc=%r %s' % (
                o.detail[:80], args, rep.get('value'), rep.get('exc'), json.dumps(rep.get('explain') or {}, sort_keys=True)[:300])
            n += 1
            o.replay_path = C.write_replay(prop, n, dict(property=prop, engine='concrete-boundary-sample', kind='e1-call', module=c.module,
                                                          module_source=open(c.module).read(), fn=c.fn, args=args, kwargs={}, desc=c.desc, explain=rep.get('explain')))
            break
