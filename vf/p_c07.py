"""C07 - C++ full decode is memory-safe and exact on arbitrary bytes (E2: llsym over the IR of message<X>::decode<E>)."""
import os
import time

from . import common as C
from . import wirespec as W
from . import family as F
from . import pyharness as H
from . import cppharness as X

R_RATIO = 32         # every element consumes >= 1 input byte; largest in-memory element in F is 32 bytes (D8); x2 for geometric growth


def shapes_for(tier):
    fam = [s for s in F.family('quick' if tier == 'quick' else 'thorough') if F.cpp_full_eligible(s)]
    return fam


def lengths_for(s, tier):
    size = W.type_layout(s)[0]
    valid = set()
    for prof in H.length_profiles(s):
        valid.add(len(W.encode(s, H.make_value(s, H.Plan(prof)), '<')))
    maxL = 24 if tier == 'quick' else 40
    if tier == 'quick':
        base = set([0, 1, size - 1, size, size + 1, size + 4]) | set(range(0, min(size + 2, maxL) + 1, 3)) | set(v for v in valid if v <= maxL)
    else:
        base = set(range(0, min(size + 6, maxL) + 1)) | set(v for v in valid if v <= maxL)
    return sorted(l for l in base if 0 <= l <= maxL), valid


def run(tier):
    t0 = time.time()
    work = C.workdir('C07')
    W.self_check()
    shapes = shapes_for(tier)
    ftier = 'quick' if tier == 'quick' else 'thorough'
    chunks = X.prepare(work, shapes, chunk=8, also_O0=True)
    errors = [c['error'] for c in chunks if c['error']]
    tasks = []
    for c in chunks:
        if c['error']:
            continue
        for s in c['shapes']:
            lens, valid = lengths_for(s, tier)
            for e in (('le', 'be') if tier == 'quick' else ('le', 'be', 'na')):
                for Lb in lens:
                    if tier == 'quick' and e == 'be' and Lb % 2 == 1 and Lb not in valid:
                        continue
                    oid = '%s/dec/%s/L%d' % (s.name, e, Lb)
                    tasks.append(dict(query='q_decode_total', oid=oid, ll=c['ll'], chunk=c['idx'], shape=s.name, family=ftier, e=e, L=Lb,
                                      alloc_limit=2 * R_RATIO * Lb + 64, timeout=60 if tier == 'quick' else 300,
                                      desc=dict(shape=s.name, check='decode-total', endianness=e, input_length=Lb,
                                                symbolic='all %d input bytes' % Lb, valid_length=Lb in valid)))
            # the same query over the unoptimised IR (-O0): accesses the optimiser removed or merged at -O1 are all there
            lens, valid = lengths_for(s, tier)
            size = W.type_layout(s)[0]
            if tier == 'quick':
                pick = [max([v for v in valid if v <= 24] or [size])]
                combos = [('be', l) for l in pick if l <= 24]
            else:
                combos = [(e, l) for e in ('le', 'be') for l in lens]
            for e, Lb in combos:
                tasks.append(dict(query='q_decode_total', oid='%s/dec-O0/%s/L%d' % (s.name, e, Lb), ll=c['ll0'], chunk=c['idx'], shape=s.name, family=ftier, e=e, L=Lb,
                                  alloc_limit=2 * R_RATIO * Lb + 64, timeout=90 if tier == 'quick' else 400,
                                  desc=dict(shape=s.name, check='decode-total', ir='-O0', endianness=e, input_length=Lb,
                                            symbolic='all %d input bytes' % Lb, valid_length=Lb in valid)))
    pat = os.environ.get('VF_ONLY')
    if pat:
        tasks = [t for t in tasks if pat in t['oid']]
    results = X.run_tasks(tasks)
    obs = X.to_obligations('C07', results, chunks, 'decode-total')
    return C.finish('C07', tier, obs, t0,
                    functions=['prophy::detail::message<X>::decode<E>(const void*, size_t)', 'message_impl<X>::decode<E> (generated)', 'decoder<> specialisations',
                               'decode_int', 'do_decode(optional<T>&)', 'do_decode_resize / advance / align / greedy / in_place', 'X::X()', 'X::get_byte_size()',
                               'message_impl<X>::encode<E> (on accepted inputs)', 'libstdc++ std::vector growth code (executed, not modelled)'],
                    bounds=dict(family='C++-eligible F, %d shapes' % len(shapes), input_length='quick: selected L <= 24 around the static size and every valid encoding length; thorough: all L <= min(size+6, 40)',
                                loop_unwinding='<= L+6 visits per block (unwinding assertion: exceeding it is inconclusive)',
                                allocation='every operator new request <= 2*R*L + 64 with R = %d' % R_RATIO,
                                outside='inputs longer than the bound; 32-bit targets; libstdc++ internals beyond the executed vector code'),
                    assumptions=['IR from clang++-14 -O1 -fno-exceptions; buffers 8-byte aligned; leaf stubs: operator new/delete, memset/memmove/memcpy, bswap, assume, __assert_fail, __throw_*',
                                 'counterexamples are replayed on a g++ -O0 ASan+UBSan build before being reported',
                                 'forming an out-of-bounds pointer without dereferencing it (UB-pointer) is recorded in evidence, never the sole reason for exit 1'],
                    extra=dict(build_errors=errors[:5]), errors=errors[:3])
