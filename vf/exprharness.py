"""C14 / C13.2 harness library: constant expressions.

The real ply parser of prophyc runs on *concrete* expression texts whose leaves are names bound to symbolic integers,
so the lexer and the LALR driver run concretely and only the semantic actions see symbolic values.
The reference evaluator below is ours: a tokenizer + precedence climbing over the precedence table declared in the
grammar (lowest to highest: + -  |  * /  |  << >>  |  unary minus), exact integer (floor) arithmetic.
"""
import re

_TOK = re.compile(r'\s*(0x[0-9a-fA-F]+|0[0-7]*|[1-9][0-9]*|[A-Za-z_]\w*|<<|>>|[-+*/()])')
PREC = {'+': 1, '-': 1, '*': 2, '/': 2, '<<': 3, '>>': 3}


class Outside(Exception):
    """the expression leaves the claim for these values (negative dividend, zero divisor, negative shift)"""


def tokenize(text):
    out, i = [], 0
    text = text.strip()
    while i < len(text):
        m = _TOK.match(text, i)
        assert m, 'cannot tokenize %r at %d' % (text, i)
        out.append(m.group(1))
        i = m.end()
    return out


def parse_ref(tokens):
    pos = [0]

    def peek():
        return tokens[pos[0]] if pos[0] < len(tokens) else None

    def nxt():
        t = tokens[pos[0]]
        pos[0] += 1
        return t

    def primary():
        t = nxt()
        if t == '(':
            e = expr(1)
            assert nxt() == ')'
            return e
        if t == '-':
            return ('neg', primary_u())
        if re.match(r'0x', t):
            return ('lit', int(t, 16))
        if re.match(r'0[0-7]+$', t):
            return ('lit', int(t, 8))
        if re.match(r'\d', t):
            return ('lit', int(t))
        return ('name', t)

    def primary_u():
        # operand of a unary minus: unary minus binds tighter than every binary operator
        return primary()

    def expr(minp):
        lhs = primary()
        while peek() in PREC and PREC[peek()] >= minp:
            op = nxt()
            rhs = expr(PREC[op] + 1)          # all binary operators are left associative
            lhs = (op, lhs, rhs)
        return lhs

    e = expr(1)
    assert pos[0] == len(tokens), 'trailing tokens in %r' % (tokens,)
    return e


def eval_ref(tree, env):
    k = tree[0]
    if k == 'lit':
        return tree[1]
    if k == 'name':
        return env[tree[1]]
    if k == 'neg':
        return -eval_ref(tree[1], env)
    a = eval_ref(tree[1], env)
    b = eval_ref(tree[2], env)
    if k == '+':
        return a + b
    if k == '-':
        return a - b
    if k == '*':
        return a * b
    if k == '/':
        if b == 0 or a < 0 or b < 0:
            raise Outside()
        return a // b
    if k == '<<':
        if b < 0:
            raise Outside()
        return a << b
    if k == '>>':
        if b < 0:
            raise Outside()
        return a >> b
    raise ValueError(k)


def has_octal(text):
    return any(re.match(r'0[0-7]+$', t) for t in tokenize(text))


_P = {}


def parser():
    if 'p' not in _P:
        from prophyc.parsers.prophy import Parser
        _P['p'] = Parser()
    return _P['p']


def run_parser(text, env):
    """real parser on a schema text with the given named constants pre-declared (as p_constant_def would have stored
    them: model.Constant(name, str(value))).  -> (nodes, errors)"""
    from prophyc import model
    p = parser()
    p._init_parse_data('t')
    p.parse_file = None
    p.lexer.lineno = 1
    p.constdecls = dict((k, model.Constant(k, str(v))) for k, v in env.items())
    p.yacc.parse(text, lexer=p.lexer)
    return list(p.nodes), list(p.errors)


def check_expr(expr, a, b, c, position):
    """C14: one integer, the same everywhere.  position: 'const' | 'enum' | 'size' | 'disc'"""
    from prophyc import model, calc
    env = {'A': a, 'B': b, 'C': c}
    try:
        ref = eval_ref(parse_ref(tokenize(expr)), env)
    except Outside:
        return True
    if position == 'const':
        nodes, errors = run_parser('const R = %s;\nconst S = R + 1;\n' % expr, env)
        if errors:
            return False
        if int(nodes[0].value) != ref:                  # parse-time value, as stored
            return False
        if int(nodes[1].value) != ref + 1:              # a later reference to the constant (p_expression_name)
            return False
    elif position == 'enum':
        nodes, errors = run_parser('enum E { E_1 = %s, E_2 = E_1 + 2 };\n' % expr, env)
        if not (0 <= ref and ref + 2 <= 0xFFFFFFFF):
            return len(errors) >= 1                     # enumerators outside 32 bits must be diagnosed
        if errors:
            return False
        if int(nodes[0].members[0].value) != ref or int(nodes[0].members[1].value) != ref + 2:
            return False
    elif position == 'size':
        if ref <= 0:
            nodes, errors = run_parser('struct X { u8 x[%s]; };\n' % expr, env)
            return len(errors) >= 1                     # non-positive array size must be diagnosed
        nodes, errors = run_parser('struct X { u8 x[%s]; u16 y<%s>; };\n' % (expr, expr), env)
        if errors:
            return False
        ms = nodes[0].members
        if int(ms[0].size) != ref or int(ms[2].size) != ref:
            return False
        model.cross_reference(nodes)
        if ms[0].numeric_size != ref or ms[2].numeric_size != ref:
            return False
    else:
        nodes, errors = run_parser('union U { %s: u8 a; };\n' % expr, env)
        if not (0 <= ref <= 0xFFFFFFFF):
            return len(errors) >= 1                     # discriminators outside 32 bits must be diagnosed
        if errors:
            return False
        if int(nodes[0].members[0].discriminator) != ref:
            return False
    # the second evaluator (model time), on every expression it can read
    if not has_octal(expr):
        if calc.eval(expr, dict(env)) != ref:
            return False
        consts = model._collect_constants([model.Constant('A', str(a)), model.Constant('B', str(b)), model.Constant('C', str(c)),
                                           model.Constant('R', expr)])
        if consts['R'] != ref:
            return False
        if model.to_int(expr, dict(env)) != ref:
            return False
    return True


def check_total(expr, a, b, c, position):
    """C13.2: semantic actions are total: only accumulated parser errors, stored value is the decimal string of an int,
    a later reference does not raise.  No restriction on the values (zero divisors, negative shifts included)."""
    from prophyc import calc
    env = {'A': a, 'B': b, 'C': c}
    text = {'const': 'const R = %s;\nconst S = R + 1;\n', 'enum': 'enum E { E_1 = %s, E_2 = E_1 + 2 };\n',
            'size': 'struct X { u8 x[%s]; };\n', 'disc': 'union U { %s: u8 a; };\n'}[position] % expr
    nodes, errors = run_parser(text, env)               # any escaping exception is a counterexample
    for loc, msg in errors:
        if not isinstance(msg, str):
            return False
    if position == 'const' and not errors:
        v = int(nodes[0].value)                         # must be an integer literal
        if str(v) != nodes[0].value:
            return False
    if not has_octal(expr):
        # model-time evaluator: the full text and every token prefix of it (premature end of input) must give an
        # int or calc.ParseError - the only error its callers handle
        toks = tokenize(expr)
        for k in range(len(toks), 0, -1):
            text = ' '.join(toks[:k])
            try:
                r = calc.eval(text, dict(env))
            except calc.ParseError:
                continue
            if not isinstance(r, int):
                return False
        # a referenced constant that could not be evaluated is stored as None in the constants table (model.cross_reference):
        # using it inside a larger expression must again end in an int or calc.ParseError
        for unknown in ('A', 'B'):
            env2 = dict(env)
            env2[unknown] = None
            try:
                r = calc.eval(' '.join(toks), env2)
            except calc.ParseError:
                continue
            if not isinstance(r, int):
                return False
    return True


def explain(fn, rerun, table):
    exc = None
    try:
        rerun()
    except Exception as e:      # noqa
        exc = type(e).__name__
    kind, idx = fn.split('__')[0], int(fn.split('__')[1])
    expr, position = table[idx]
    ops = sorted(set(t for t in tokenize(expr) if t in PREC))
    return dict(check='expr-' + kind, operators=' '.join(ops), position=position, kind=('exception:' + exc) if exc else 'value-mismatch')


# ---------------------------------------------------------------- expression shapes

LITS = ['2', '3', '8', '0x1F', '010', '1']


def shapes(max_ops, tier):
    """expression texts with <= max_ops binary operators; operands of * / << >> on the right are literals"""
    ops = ['+', '-', '*', '/', '<<', '>>']
    names = ['A', 'B', 'C', 'A']
    out = []

    def rhs(op, k):
        if op in ('+', '-'):
            return names[(k + 1) % 3] if k % 2 == 0 else LITS[(k * 3 + 1) % len(LITS)]
        if op == '/':
            return ['2', '3', '0x10', '8'][k % 4]
        if op in ('<<', '>>'):
            return ['1', '3', '31', '010'][k % 4] if op == '<<' else ['1', '3', '8', '31'][k % 4]
        return LITS[k % len(LITS)]

    import itertools
    for n in range(1, max_ops + 1):
        for comb in itertools.product(ops, repeat=n):
            e = 'A'
            for k, op in enumerate(comb):
                e = '%s %s %s' % (e, op, rhs(op, k + len(out)))
            out.append(e)
    # unary minus and parentheses variants
    out += ['-A', '-A >> 1', '-A << 2', '-(A + B) * 2', '(A + B) * 3', 'A - (B - C)', 'A - (B + 3) / 2', '(A << 2) / 8', '-A - -B',
            '(A + 1) << 3', 'A * (2 + 3)', '2 * A + 3 * B - 8 * C', '0x10 + 010 + 10', '-(-A)', '(A - B) >> 1', 'A / 2 / 3', 'A >> 1 >> 1',
            'A << 1 << 1', '(A >> 3) << 3', 'A - B - C', 'A / 3 * 3', '1 << 31', '0xFFFFFFFF + A', '-1 - A']
    seen = []
    for e in out:
        if e not in seen:
            seen.append(e)
    return seen
