"""Compiler-unit harness library (C13 sort termination / include resolution, C15 definition order, C16 path logic).

Everything here drives the *real* prophyc functions (model.topological_sort, model.evaluate_model, FileProcessor,
Parser.p_include_def) with structured symbolic inputs: dependency relations, permutations, include matrices,
existence of files.  The file system is replaced by an in-memory table (environment stub).
"""
import io
import posixpath


def _pick(values, i):
    for k, v in enumerate(values[:-1]):
        if i == k:
            return v
    return values[-1]


# ------------------------------------------------------------------------------------------------ C13.1 sort terminates

class Fuel(Exception):
    pass


class DuckNode(object):
    """duck-typed model node: name + dependencies(); every call burns fuel"""

    def __init__(self, name, deps, tank):
        self.name = name
        self._deps = deps
        self._tank = tank

    def dependencies(self):
        self._tank[0] -= 1
        if self._tank[0] < 0:
            raise Fuel()
        return list(self._deps)


def sort_terminates(n, edges):
    """edges: list of n*n bools, edges[i*n+j] = node i depends on node j (cycles and self loops allowed).
    topological_sort must return or raise ModelError within 4*n*n + 8 dependency queries (the acyclic worst case is < n*n)."""
    from prophyc import model
    names = ['N%d' % i for i in range(n)]
    tank = [4 * n * n + 8]
    nodes = [DuckNode(names[i], [names[j] for j in range(n) if edges[i * n + j]], tank) for i in range(n)]
    try:
        model.topological_sort(nodes)
    except model.ModelError:
        return True
    except Fuel:
        return False
    out = [x.name for x in nodes]
    return sorted(out) == names


def _fuel_typedef(model, tank):
    """model.Typedef whose `definition` reads burn fuel: a loop that follows typedef chains for ever runs dry"""
    class FTypedef(model.Typedef):
        @property
        def definition(self):
            tank[0] -= 1
            if tank[0] < 0:
                raise Fuel()
            return self.__dict__.get('_defn')

        @definition.setter
        def definition(self, v):
            self.__dict__['_defn'] = v
    return FTypedef


class _StatPath(object):
    """os.path stand-in: what the file system answers for the one path under test is an input of the condition"""

    def __init__(self, exists, isdir):
        self._e, self._d = exists, isdir
    join = staticmethod(posixpath.join)

    def exists(self, p):
        return self._e

    def isdir(self, p):
        return self._d

    def isfile(self, p):
        return self._e and not self._d


class _StatOs(object):
    def __init__(self, exists, isdir):
        self.path = _StatPath(exists, isdir)


def outdir_contract(exists, isdir):
    """whatever the option parser accepts as an output directory (options.readable_dir), the generators' path builder
    (generators.base._make_path) accepts too - it asserts os.path.isdir; a refusal is an argparse error, never an AssertionError.
    The file system's answers for the path are the symbolic inputs (contract: a directory exists)."""
    import argparse
    from prophyc import options
    from prophyc.generators import base
    if isdir and not exists:
        return True
    saved = options.os, base.os
    options.os = base.os = _StatOs(exists, isdir)
    try:
        try:
            options.readable_dir('out')
        except argparse.ArgumentTypeError:
            return True
        try:
            base._make_path('out', 'x', '.py')
        except AssertionError:
            return False
        return True
    finally:
        options.os, base.os = saved


MT_KINDS = ('typedef', 'struct', 'union')


def model_terminates(kinds, refs):
    """kinds: concrete tuple over typedef/struct/union; refs[i] in 0..n: the type node i names (n = the builtin u8; i itself
    and cycles allowed).  A last struct Z holds node 0.  The real evaluate_model (sort, cross reference, stiffness, sizes)
    must return or raise ModelError within the fuel (typedef-chain steps) and without any other exception."""
    from prophyc import model
    n = len(kinds)
    tank = [50 * (n + 2)]
    TD = _fuel_typedef(model, tank)
    names = ['D%d' % i for i in range(n)]

    def target(i):
        r = refs[i]
        for j in range(n):
            if r == j:
                return names[j]
        return 'u8'
    nodes = []
    for i, k in enumerate(kinds):
        t = target(i)
        if k == 'typedef':
            nodes.append(TD(names[i], t))
        elif k == 'struct':
            nodes.append(model.Struct(names[i], [model.StructMember('a', 'u8'), model.StructMember('m', t)]))
        else:
            nodes.append(model.Union(names[i], [model.UnionMember('a', 'u8', '1'), model.UnionMember('m', t, '2')]))
    nodes.append(model.Struct('Z', [model.StructMember('z', names[0]), model.StructMember('t', 'u16')]))
    try:
        model.evaluate_model(nodes)
    except model.ModelError:
        return True
    except Fuel:
        return False
    return True


# ------------------------------------------------------------------------------------------------ C15 order independence

KINDS = ('const', 'typedef', 'enum', 'struct', 'union')     # also the isar collection order
TYPEISH = ('typedef', 'enum', 'struct', 'union')


def compatible(ki, kj):
    """may a node of kind ki refer to an (earlier-in-dependency-order) node of kind kj?"""
    if ki == 'const':
        return kj in ('const', 'enum')
    if ki == 'enum':
        return kj in ('const', 'enum')
    if ki == 'typedef':
        return kj in TYPEISH
    if ki == 'struct':
        return kj in TYPEISH or kj in ('const',)
    if ki == 'union':
        return kj in TYPEISH
    return False


def edge_slots(kinds):
    return [(i, j) for i in range(len(kinds)) for j in range(i) if compatible(kinds[i], kinds[j])]


def join_terms(terms, style):
    """the same sum written the ways an isar / sack document may write it (with and without blanks, parenthesised)"""
    if style == 1:
        return '+'.join(terms)
    if style == 2:
        return '+'.join('(%s)' % t for t in terms)
    if style == 3:
        return '(' + '+'.join(terms) + ')-0'
    return ' + '.join(terms)


def build_nodes(kinds, edges, style=0):
    """real model nodes D0..Dn-1; node i refers to node j for every selected (i, j) slot"""
    from prophyc import model
    n = len(kinds)
    slots = edge_slots(kinds)
    deps = dict((i, []) for i in range(n))
    for (i, j), e in zip(slots, edges):
        if e:
            deps[i].append(j)
    nodes = []
    for i, k in enumerate(kinds):
        name = 'D%d' % i
        refs = deps[i]
        if k == 'const':
            terms = ['%d' % (i + 1)]
            for j in refs:
                terms.append(('D%d' % j) if kinds[j] == 'const' else ('D%d_M' % j))
            nodes.append(model.Constant(name, join_terms(terms, style)))
        elif k == 'enum':
            terms = ['%d' % (i + 1)]
            for j in refs:
                terms.append(('D%d' % j) if kinds[j] == 'const' else ('D%d_M' % j))
            nodes.append(model.Enum(name, [model.EnumMember('D%d_M' % i, join_terms(terms, style)), model.EnumMember('D%d_Z' % i, '0')]))
        elif k == 'typedef':
            tgt = [j for j in refs if kinds[j] in TYPEISH]
            deps[i] = tgt[:1]                           # a typedef names exactly one type: only that reference exists
            nodes.append(model.Typedef(name, ('D%d' % tgt[0]) if tgt else 'u16'))
        elif k == 'struct':
            members = [model.StructMember('pre', 'u8')]
            for j in refs:
                if kinds[j] in TYPEISH:
                    members.append(model.StructMember('m%d' % j, 'D%d' % j))
                else:
                    members.append(model.StructMember('a%d' % j, 'u16', size='D%d' % j))
            nodes.append(model.Struct(name, members))
        else:
            arms = [model.UnionMember('base', 'u8', '1')]
            for j in refs:
                arms.append(model.UnionMember('m%d' % j, 'D%d' % j, str(j + 2)))
            nodes.append(model.Union(name, arms))
    return nodes, deps


def isar_order(kinds, perm_sel):
    """indices in the order IsarParser.parse would emit them: grouped by kind (constants, typedefs, enums, structs,
    unions), document order inside a group chosen by perm_sel (one selector per group with >= 2 nodes)"""
    import itertools
    out = []
    sel = list(perm_sel)
    for k in KINDS:
        grp = [i for i, x in enumerate(kinds) if x == k]
        if len(grp) >= 2:
            perms = list(itertools.permutations(grp))
            out += list(_pick(perms, sel.pop(0)))
        else:
            out += grp
    return out


def layout_of(nodes):
    from prophyc import model
    res = {}
    for x in nodes:
        if isinstance(x, (model.Struct, model.Union)):
            res[x.name] = (x.byte_size, x.alignment, x.kind)
    return res


def order_independent(kinds, edges, perm_sel, style=0):
    from prophyc import model
    kinds = list(kinds)
    # canonical run: dependency order (node i only refers to j < i)
    canon, deps = build_nodes(kinds, edges, style)
    model.evaluate_model(canon)
    want = layout_of(canon)
    for v in want.values():
        if v[0] is None:
            return True      # the canonical run itself could not size a type (e.g. non-positive array size): outside the claim
    nodes, deps = build_nodes(kinds, edges, style)
    order = isar_order(kinds, perm_sel)
    arranged = [nodes[i] for i in order]
    names_in = sorted(x.name for x in arranged)
    out, _ = model.evaluate_model(arranged)
    names_out = [x.name for x in out]
    if sorted(names_out) != names_in:
        return False                                    # lost / duplicated definition
    pos = dict((nm, k) for k, nm in enumerate(names_out))
    for i, ds in deps.items():
        for j in ds:
            if pos['D%d' % j] > pos['D%d' % i]:
                return False                            # a definition precedes something it depends on
    return layout_of(out) == want


def order_explain(kinds, edges, perm_sel, style=0):
    from prophyc import model
    kinds = list(kinds)
    slots = edge_slots(kinds)
    sel = sorted(set('%s->%s' % (kinds[i], kinds[j]) for (i, j), e in zip(slots, edges) if e))
    try:
        ok = order_independent(kinds, edges, perm_sel, style)
        kind = 'order-or-layout' if not ok else 'none'
    except Exception as e:    # noqa
        kind = 'exception:' + type(e).__name__
    return dict(check='definition-order', kind=kind, edge_kinds=' '.join(sel))


# ------------------------------------------------------------------------------------------------ stub file system

class FakeFS(object):
    def __init__(self):
        self.files = {}

    def exists(self, p):
        return posixpath.normpath(p) in self.files


class _Path(object):
    def __init__(self, fs):
        self.fs = fs
    join = staticmethod(posixpath.join)
    dirname = staticmethod(posixpath.dirname)
    basename = staticmethod(posixpath.basename)
    splitext = staticmethod(posixpath.splitext)

    def exists(self, p):
        return self.fs.exists(p)

    def abspath(self, p):
        return posixpath.normpath(posixpath.join('/cwd', p))


class _Os(object):
    def __init__(self, fs):
        self.path = _Path(fs)


class _Codecs(object):
    def __init__(self, fs):
        self.fs = fs

    def open(self, p, mode, encoding=None):
        return io.StringIO(self.fs.files[posixpath.normpath(p)])


class _T(list):
    """stand-in for a yacc production object handed to Parser.p_include_def"""

    def lineno(self, i):
        return 1

    def lexpos(self, i):
        return 0


NAMES = ['a.prophy', 'b.prophy', 'c.prophy']


def includes_resolve(inc, ex1, ex2, d1, d2):
    """C13.3: three files, symbolic include matrix inc[i*3+j] (file i includes file j), existence and directory of b and c.
    Real FileProcessor + real Parser.p_include_def over the stub file system.  Every file is processed at most once,
    a missing file / a cycle surfaces only as the designed parser error, nothing else escapes."""
    from prophyc import file_processor
    from prophyc.parsers.prophy import Parser
    fs = FakeFS()
    fs.files['main/a.prophy'] = '0'
    if ex1:
        fs.files[('inc/' if d1 else 'main/') + 'b.prophy'] = '1'
    if ex2:
        fs.files[('inc/' if d2 else 'main/') + 'c.prophy'] = '2'
    exists = [True, ex1, ex2]
    saved = file_processor.os, file_processor.codecs
    file_processor.os, file_processor.codecs = _Os(fs), _Codecs(fs)
    processed = []
    errors_seen = []
    try:
        def process_content(content, path, process_file):
            idx = int(content)
            processed.append(idx)
            p = Parser.__new__(Parser)                  # semantic actions only: lexer / LALR tables are not needed
            p._init_parse_data(path)
            p.parse_file = process_file

            class _L(object):
                lexdata = ''
            p.lexer = _L()
            for j in range(3):
                if inc[idx * 3 + j]:
                    p.p_include_def(_T([None, '#', 'include', '"%s"' % NAMES[j]]))
            errors_seen.extend(p.errors)
            return p.nodes
        fp = file_processor.FileProcessor(process_content, ['inc'])
        fp('main/a.prophy')
    finally:
        file_processor.os, file_processor.codecs = saved
    if len(processed) != len(set(processed)):
        return False
    for _, m in errors_seen:
        if not (('not found' in m) or ('included again' in m)):
            return False
    # completeness of the diagnostics: a reachable include of a missing file must be reported, never dropped
    reach = set([0])
    frontier = [0]
    missing = False
    cyc = False
    where = ['main', 'inc' if d1 else 'main', 'inc' if d2 else 'main']
    while frontier:
        i = frontier.pop()
        for j in range(3):
            if inc[i * 3 + j]:
                # documented lookup: the including file's own directory, then the -I directories ('inc')
                visible = exists[j] and (where[j] == where[i] or where[j] == 'inc')
                if not visible:
                    missing = True
                elif j not in reach:
                    reach.add(j)
                    frontier.append(j)
    if missing and not any('not found' in m for _, m in errors_seen):
        return False
    if sorted(processed) != sorted(reach):
        return False
    # exact diagnostics: a depth-first walk in include order; "included again" only for a file that is still being
    # processed (a real cycle), never for a file that was already processed completely (diamond, empty file)
    want = [0, 0]                                       # [not found, included again]
    stack, done_ = [], set()

    def walk(i):
        stack.append(i)
        for j in range(3):
            if inc[i * 3 + j]:
                if not (exists[j] and (where[j] == where[i] or where[j] == 'inc')):
                    want[0] += 1
                elif j in stack:
                    want[1] += 1
                elif j not in done_:
                    walk(j)
        stack.pop()
        done_.add(i)
    walk(0)
    got = [len([1 for _, m in errors_seen if 'not found' in m]), len([1 for _, m in errors_seen if 'included again' in m])]
    return got == want


def path_resolution(in_own, in_i1, in_i2, nested):
    """C16 (ii): the leaf is looked up first in the including file's own directory, then in the -I directories in the
    order given; the first existing candidate is the one that is read; nothing found -> FileNotFoundError."""
    from prophyc import file_processor
    fs = FakeFS()
    main = 'proj/sub/main.prophy' if nested else 'proj/main.prophy'
    own = posixpath.dirname(main)
    fs.files[main] = 'main'
    if in_own:
        fs.files[own + '/leaf.prophy'] = 'own'
    if in_i1:
        fs.files['inc1/leaf.prophy'] = 'i1'
    if in_i2:
        fs.files['inc2/leaf.prophy'] = 'i2'
    saved = file_processor.os, file_processor.codecs
    file_processor.os, file_processor.codecs = _Os(fs), _Codecs(fs)
    got = []
    raised = [None]
    try:
        def process_content(content, path, process_file):
            if content == 'main':
                try:
                    process_file('leaf.prophy')
                except file_processor.FileNotFoundError:
                    raised[0] = 'notfound'
            else:
                got.append(content)
            return [content]
        fp = file_processor.FileProcessor(process_content, ['inc1', 'inc2'])
        fp(main)
        dirs_after = list(fp.include_dirs)
    finally:
        file_processor.os, file_processor.codecs = saved
    want = 'own' if in_own else ('i1' if in_i1 else ('i2' if in_i2 else None))
    if dirs_after != ['inc1', 'inc2']:
        return False                                    # the directory stack must be restored
    if want is None:
        return raised[0] == 'notfound' and got == []
    return got == [want] and raised[0] is None
