"""C10 - Python message API keeps every reachable message state valid.

E1: one API operation (arbitrary arguments) from an arbitrary valid state, against a plain reference model
(vf/apiharness.py); short toggle histories where the observable invariant is not inductive; E3: the one float lemma.
"""
import os
import time

from . import common as C
from . import apiharness as A
from .chrun import Cond, run_conditions, to_obligations, concrete_reach

HEAD = '''# generated harness module (E1, API steps)
from vf import pyharness as H, apiharness as A
H.setup()
A.load(%(gen)r)


def explain(fn, args, kwargs):
    return A.explain(fn, lambda: globals()[fn](*args))

'''

R8 = '0 <= %s <= 255'
R16 = '0 <= %s <= 65535'


def prepare(work):
    src = os.path.join(work, 'api.prophy')
    with open(src, 'w') as f:
        f.write(A.API_SCHEMA)
    rc, out, err = C.sh([C.PY, '-m', 'prophyc', '--python_out', work, src], cwd=C.REPO, timeout=300, env={'PYTHONPATH': C.REPO})
    if rc != 0 or not os.path.exists(os.path.join(work, 'api.py')):
        raise C.HarnessError('prophyc failed on the API schema: %s' % (err or out)[-800:])
    return os.path.join(work, 'api.py')


class Gen(object):
    def __init__(self, path, tier='quick'):
        self.path = path
        self.tier = tier
        self.body = []
        self.conds = []

    def add(self, fn, params, pres, call, oid, desc, sample):
        sig = ', '.join('%s: %s' % p for p in params)
        pre = ''.join('    pre: %s\n' % p for p in pres)
        self.body.append('def %s(%s) -> bool:\n    """\n%s    post: _\n    """\n    return %s\n\n' % (fn, sig, pre, call))
        self.conds.append(Cond(self.path, fn, oid, desc, sample_args=sample))


VAL = [('kind', 'int'), ('iv', 'int')]
VALPRE = ['0 <= kind <= 7']
VALPRE_ENUM = ['0 <= kind <= 9']           # kinds 8, 9: the other enumerator names (only an enum field tells them from any other string)


def build(g):
    # ---- scalar / enum assignment
    for f in ('a', 'b', 'c', 'e'):
        g.add('scalar_%s' % f, [('a0', 'int'), ('b0', 'int'), ('c0', 'int'), ('e0', 'int')] + VAL,
              [R8 % 'a0', '-32768 <= b0 <= 32767', '0 <= c0 < 2**64', '0 <= e0 <= 2'] + (VALPRE_ENUM if f == 'e' else VALPRE),
              'A.step_scalar(%r, a0, b0, c0, e0, kind, iv)' % f, 'MS/assign/%s' % f,
              dict(op='assignment to %s field %s' % ({'a': 'u8', 'b': 'i16', 'c': 'u64', 'e': 'enum'}[f], f),
                   symbolic='state a0,b0,c0,e0; argument of any type (int unbounded)'), [1, -2, 3, 1, 0, 7])
    # ---- bytes
    for f in ('bf', 'bl', 'bd'):
        for n in range(0, 7):
            g.add('bytes_%s_%d' % (f, n), [('b%d' % i, 'int') for i in range(6)] + [('kind', 'int')],
                  [' and '.join(R8 % ('b%d' % i) for i in range(6)), '0 <= kind <= 7'],
                  'A.step_bytes(%r, %d, b0, b1, b2, b3, b4, b5, kind)' % (f, n), 'MS/assign-bytes/%s/len%d' % (f, n),
                  dict(op='assignment to bytes field %s' % f, length=n, symbolic='content bytes; or a non-bytes argument'),
                  [1, 2, 3, 4, 5, 6, 0])
    # ---- optionals
    for op in range(4):
        g.add('optional_%d' % op, [('p_ou', 'bool'), ('ou0', 'int'), ('p_os', 'bool'), ('sa0', 'int'), ('sb0', 'int')] + VAL,
              [R16 % 'ou0', R8 % 'sa0', R16 % 'sb0'] + VALPRE,
              'A.step_optional(%d, p_ou, ou0, p_os, sa0, sb0, kind, iv)' % op, 'MO/optional/op%d' % op,
              dict(op=['ou = value', 'os = True/None/other', 'os.a = value', 'ov = True/None/other'][op],
                   symbolic='presence and values of the state; argument'), [True, 5, True, 1, 2, [0, 1, 0, 1][op], 7])
    g.add('hist_optional', [('sa0', 'int'), ('sb0', 'int'), ('again', 'bool')], [R8 % 'sa0', R16 % 'sb0'],
          'A.hist_optional(sa0, sb0, again)', 'MO/history/enable-write-clear-enable',
          dict(op='history: enable, write, clear, enable', symbolic='written values'), [3, 4, False])
    # ---- union
    for op in range(5):
        g.add('union_%d' % op, [('arm0', 'int'), ('x0', 'int'), ('y0', 'int'), ('za0', 'int'), ('zb0', 'int'), ('dsel', 'int')] + VAL,
              ['0 <= arm0 <= 2', R8 % 'x0', R16 % 'y0', R8 % 'za0', R16 % 'zb0', '0 <= dsel <= 10'] + VALPRE,
              'A.step_union(%d, arm0, x0, y0, za0, zb0, dsel, kind, iv)' % op, 'MU/union/op%d' % op,
              dict(op=['discriminator = name|value|junk', 'x = value', 'y = value', 'z.a = value', 'z = value'][op],
                   symbolic='selected arm and its values; argument'), [0, 1, 2, 3, 4, 0, 0, 9])
    g.add('hist_union', [('arm_a', 'int'), ('arm_b', 'int'), ('x0', 'int'), ('y0', 'int'), ('za0', 'int'), ('zb0', 'int')],
          ['0 <= arm_a <= 2', '0 <= arm_b <= 2', R8 % 'x0', R16 % 'y0', R8 % 'za0', R16 % 'zb0'],
          'A.hist_union(arm_a, arm_b, x0, y0, za0, zb0)', 'MU/history/switch-write-switch-back',
          dict(op='history: write arm, switch, switch back', symbolic='arms and values'), [0, 2, 1, 2, 3, 4])
    # ---- scalar arrays
    E = [('e0', 'int'), ('e1', 'int'), ('e2', 'int')]
    for which in ('fa', 'la', 'da'):
        hi = 65535 if which == 'da' else 255
        epre = ['0 <= e0 <= %d and 0 <= e1 <= %d and 0 <= e2 <= %d' % (hi, hi, hi)]
        for op, name in ((0, 'append'), (1, 'insert'), (2, 'setitem'), (3, 'delitem'), (7, 'remove')):
            g.add('arr_%s_%s' % (which, name), [('n', 'int')] + E + [('i', 'int')] + VAL,
                  ['0 <= n <= 3', '-5 <= i <= 5'] + epre + VALPRE,
                  'A.step_array(%r, %d, n, e0, e1, e2, i, 0, 1, kind, iv, 0, 0, 0, 0, 0)' % (which, op),
                  'MA/%s/%s' % (which, name), dict(op='%s on %s' % (name, which), symbolic='length 0..3, elements, index -5..5, argument'),
                  [2, 1, 2, 3, 1, 0, 7])
        for n in range(0, 4):
            if which == 'fa' and n != 3:
                continue
            if g.tier == 'quick' and n == 1:
                continue
            B = 3 if g.tier == 'quick' else 5
            bpre = ['(-%d <= i <= %d or i == 99)' % (B, B), '(-%d <= j <= %d or j == 99)' % (B, B)]
            for vn in ((0, 1, 3) if g.tier == 'quick' else (0, 1, 2, 3)):
                # slice assignment: bounds symbolic, first new value an unbounded symbolic int (range check), others in range
                g.add('arr_%s_setslice_%d_%d' % (which, n, vn), E + [('i', 'int'), ('j', 'int'), ('v0', 'int'), ('as_tuple', 'bool')],
                      bpre + epre,
                      'A.step_array(%r, 4, %d, e0, e1, e2, i, j, 1, 0, 0, %d, v0, 5, 6, 1 if as_tuple else 0)' % (which, n, vn),
                      'MA/%s/setslice/n%d/vals%d' % (which, n, vn),
                      dict(op='slice assignment on %s' % which, length=n, values=vn,
                           symbolic='elements, slice bounds (None|-%d..%d), first new value (unbounded int), list or tuple' % (B, B)),
                      [1, 2, 3, 0, 2, 4, False])
                if which != 'fa':
                    g.add('arr_%s_extend_%d_%d' % (which, n, vn), E + [('v0', 'int'), ('v1', 'int'), ('v2', 'int'), ('as_iter', 'int')],
                          ['0 <= as_iter <= 2'] + epre,
                          'A.step_array(%r, 6, %d, e0, e1, e2, 0, 0, 1, 0, 0, %d, v0, v1, v2, as_iter)' % (which, n, vn),
                          'MA/%s/extend/n%d/vals%d' % (which, n, vn),
                          dict(op='extend on %s' % which, length=n, values=vn, symbolic='elements, new values (unbounded ints), list/tuple/iterator'),
                          [1, 2, 3, 4, 5, 6, 0])
            g.add('arr_%s_setslice_iter_%d' % (which, n), E + [('v0', 'int')], epre,
                  'A.step_array(%r, 4, %d, e0, e1, e2, 99, 99, 1, 0, 0, %d, v0, 5, 6, 2)' % (which, n, 3 if which == 'fa' else 1),
                  'MA/%s/setslice-from-iterator/n%d' % (which, n),
                  dict(op='slice assignment from an iterator on %s' % which, length=n, symbolic='elements, value'), [1, 2, 3, 4])
            g.add('arr_%s_delslice_%d' % (which, n), E + [('i', 'int'), ('j', 'int')], bpre + epre,
                  'A.step_array(%r, 5, %d, e0, e1, e2, i, j, 1, 0, 0, 0, 0, 0, 0, 0)' % (which, n), 'MA/%s/delslice/n%d' % (which, n),
                  dict(op='del slice on %s' % which, length=n, symbolic='elements, slice bounds'), [1, 2, 3, 0, 1])
            for st in (1, 2, -1, 3, -2):
                for vn in range(0, 4):
                    if g.tier == 'quick' and (st, vn) not in ((1, 3), (1, 0), (1, 2), (2, 2), (2, 3), (-1, 3), (-1, 1), (3, 1), (-2, 2), (2, 0)):
                        continue
                    g.add('arr_%s_stepslice_%d_%d_%s' % (which, n, vn, str(st).replace('-', 'm')),
                          E + [('i', 'int'), ('j', 'int'), ('v0', 'int')],
                          ['(-3 <= i <= 3 or i == 99)', '(-3 <= j <= 3 or j == 99)'] + epre,
                          'A.step_array(%r, 8, %d, e0, e1, e2, i, j, %d, 0, 0, %d, v0, 5, 6, 0)' % (which, n, st, vn),
                          'MA/%s/stepslice/n%d/vals%d/step%d' % (which, n, vn, st),
                          dict(op='stepped slice assignment on %s' % which, length=n, values=vn, step=st, symbolic='elements, bounds, first value'),
                          [1, 2, 3, 99, 99, 4])
    # ---- composite arrays
    for which in ('lc', 'dc', 'fc'):
        for op, name in ((0, 'add-kw'), (1, 'add'), (2, 'extend'), (3, 'delitem'), (4, 'delslice'), (5, 'elem-write'), (6, 'assign-attr'), (7, 'setitem')):
            for cnt in ((0, 1, 2, 3) if op == 2 else (0,)):
                g.add('carr_%s_%d_%d' % (which, op, cnt),
                      [('n', 'int'), ('a0', 'int'), ('b0', 'int'), ('a1', 'int'), ('b1', 'int'), ('i', 'int'), ('j', 'int'), ('kind', 'int'), ('iv', 'int'), ('kb', 'int'), ('ivb', 'int')],
                      ['0 <= n <= 2', R8 % 'a0', R16 % 'b0', R8 % 'a1', R16 % 'b1', '(-4 <= i <= 4 or i == 99)', '(-4 <= j <= 4 or j == 99)',
                       '0 <= kind <= 7', '0 <= kb <= 7'] + (['kb == 0 and i == 0 and j == 0'] if op in (1, 2, 6) else []) + (['kb == 0'] if op in (3, 4, 5, 7) else []),
                      'A.step_carray(%r, %d, n, a0, b0, a1, b1, i, j, kind, iv, kb, ivb, %d)' % (which, op, cnt),
                      'MC/%s/%s%s' % (which, name, ('/cnt%d' % cnt) if op == 2 else ''),
                      dict(op='%s on composite array %s' % (name, which), symbolic='length, element fields, index/slice, arguments'),
                      [1, 1, 2, 3, 4, 0, 0, 0, 5, 0, 6])
    # ---- shared sizer
    g.add('sizer', [('na', 'int'), ('nb', 'int'), ('e0', 'int'), ('e1', 'int')] + VAL, ['0 <= na <= 3', '0 <= nb <= 3', R8 % 'e0', R16 % 'e1'] + VALPRE,
          'A.step_sizer(na, nb, e0, e1, kind, iv)', 'MX/shared-sizer', dict(op='two arrays under one sizer; assignment to the sizer', symbolic='lengths, values, argument'),
          [1, 1, 2, 3, 0, 1])


FUNCS = ['prophy.generators.struct_generator property getters/setters', 'prophy.generators.union_generator discriminator / arm properties',
         'prophy.scalar int_decorator.check / float_decorator.check', 'prophy.generators.enum_generator check', 'prophy.composite.bytes_._check',
         'prophy.container.fixed_scalar_array.*', 'prophy.container.bound_scalar_array.*', 'prophy.container.fixed_composite_array.*',
         'prophy.container.bound_composite_array.*', 'prophy.base_array.*', 'prophy.generators.container_len.evaluate_size', 'struct.encode (observation)']


def float_lemma(work):
    """E3: is there a finite double that float_decorator.check admits for an r32 field and that cannot be packed?"""
    import z3
    from .common import Obligation, DISCHARGED, VIOLATED, ERROR, INCONCLUSIVE
    t0 = time.time()
    o = Obligation('MF/float32-overflow-lemma', 'E3-z3', dict(op='r32 field assignment then encode', symbolic='the double value',
                                                              query='exists finite double x: round_to_binary32(x) is infinite (QF_FP)'))
    x = z3.FP('x', z3.Float64())
    y = z3.fpToFP(z3.RNE(), x, z3.Float32())
    s = z3.Solver()
    s.set('timeout', 60000)
    s.add(z3.Not(z3.fpIsInf(x)), z3.Not(z3.fpIsNaN(x)), z3.fpIsInf(y))
    r = s.check()
    o.solver_s = o.wall_s = time.time() - t0
    o.paths = 1
    if str(r) == 'unsat':
        o.verdict = DISCHARGED
        o.nontrivial = True
        return o
    if str(r) != 'sat':
        o.verdict = INCONCLUSIVE
        o.detail = 'z3: %s' % r
        return o
    import struct
    bv = z3.simplify(z3.fpToIEEEBV(s.model()[x])).as_long()
    val = struct.unpack('<d', struct.pack('<Q', bv))[0]
    # replay on the real API: either the assignment is rejected with ProphyError (fine) or the message must encode
    code = ('import sys, json\nsys.path.insert(0, %r)\nimport prophy, api\nm = api.MF()\nres = "ok"\n'
            'try:\n    m.f = %r\nexcept prophy.ProphyError:\n    res = "rejected"\n'
            'if res == "ok":\n    try:\n        m.encode("<")\n    except prophy.ProphyError:\n        res = "encode-ProphyError"\n'
            '    except Exception as e:\n        res = "encode-escapes:" + type(e).__name__\nprint(json.dumps(res))\n') % (work, val)
    rc, out, err = C.sh([C.PY, '-c', code], env={'PYTHONPATH': C.REPO}, timeout=60)
    res = out.strip().strip('"')
    o.witness = dict(value=repr(val))
    o.nontrivial = True
    if res == 'rejected':
        o.verdict = DISCHARGED
        o.detail = 'witness %r is rejected by the field check with ProphyError (state unchanged)' % val
    elif res.startswith('encode'):
        o.verdict = VIOLATED
        o.replayed = True
        o.signature = dict(check='float-range', kind=res)
        o.detail = 'r32 field accepts %r, then encode: %s' % (val, res)
        o.replay_path = C.write_replay('C10', 900, dict(property='C10', kind='float-lemma', value=repr(val), result=res, schema_text=A.API_SCHEMA))
    else:
        o.verdict = ERROR
        o.detail = 'replay failed: %s %s' % (out[-200:], err[-300:])
    return o


def run(tier):
    t0 = time.time()
    work = C.workdir('C10')
    gen = prepare(work)
    g = Gen(os.path.join(work, 'api_steps.py'), tier)
    g.body.append(HEAD % dict(gen=gen))
    build(g)
    with open(g.path, 'w') as f:
        f.write(''.join(g.body))
    timeout = 120 if tier == 'quick' else 900
    g.conds = C.only(g.conds)
    raw = run_conditions(g.conds, timeout, cost=lambda c: 5 if 'slice' in c.oid else 1)
    obs, _ = to_obligations('C10', g.conds, raw, schema_text=A.API_SCHEMA)
    concrete_reach(g.conds, obs)
    obs.append(float_lemma(work))
    return C.finish('C10', tier, obs, t0, functions=FUNCS,
                    bounds=dict(schemas='API subfamily MS MO MU MA MC MX MF (vf/apiharness.py)', array_limit='<= 3 (composite: 2)',
                                indices='[-5, 5] or None', values='ints unbounded; other types by concrete samples (bool, str, bytes, float, None, list)',
                                histories='single step from an arbitrary valid state + 2 explicit toggle histories',
                                outside='arrays longer than 3; sizer narrower than the array length (needs > 127 elements); str()/repr of messages'),
                    assumptions=['reference model = plain list / dict semantics + the documented validity checks (vf/apiharness.py)',
                                 'a fixed array has no append/insert/extend/remove/del: AttributeError/TypeError for a *missing method* is Python refusing a '
                                 'non-existent operation and is not counted as an escaping exception',
                                 'divergences where the model would accept and prophy safely rejects are not violations'])
