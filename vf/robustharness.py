"""C13 harness library: malformed isar elements and bad patch lines end in prophyc's designed error channel.

Below the XML text parser (expat is C code): isar elements are built as ElementTree elements whose *attribute presence*
is symbolic (every subset of the attributes an element may carry), then the real make_* builders, model.evaluate_model and
the Python translator run on them.  Patch lines are assembled from a symbolic action and a symbolic parameter list and go
through the real patch.parse (file system stubbed) and patch.patch.

Designed channel = model.ParseError / model.ModelError, or an exception raised by an explicit `raise` statement in
prophyc's own code (its messages are written for the user).  Anything else - an exception coming out of a builtin or a
library call (TypeError from int(None, 0), AttributeError on None, ValueError from tuple unpacking, KeyError, IndexError) -
is an internal exception escaping as the answer."""
import linecache
import xml.etree.ElementTree as ET


def designed(exc):
    from prophyc import model
    if isinstance(exc, (model.ParseError, model.ModelError)):
        return True
    tb = exc.__traceback__
    last = None
    while tb is not None:
        last = tb
        tb = tb.tb_next
    if last is None:
        return False
    fn = last.tb_frame.f_code.co_filename
    if '/prophyc/' not in fn.replace('\\', '/'):
        return False
    line = linecache.getline(fn, last.tb_lineno).strip()
    return line.startswith('raise ')


def _site(exc):
    tb = exc.__traceback__
    last = None
    while tb is not None:
        if '/prophyc/' in tb.tb_frame.f_code.co_filename:
            last = tb
        tb = tb.tb_next
    if last is None:
        return '?'
    return '%s:%s' % (last.tb_frame.f_code.co_filename.split('/prophyc/')[-1], last.tb_frame.f_code.co_name)


class Internal(Exception):
    """carrier: an internal exception escaped (message = type and site), so that the counterexample replays by name"""


def _guard(fn):
    try:
        return fn()
    except Exception as e:       # noqa
        if designed(e):
            return None
        raise Internal('%s at %s' % (type(e).__name__, _site(e)))


def _elem(tag, pairs, present, parent=None):
    """an element carrying the selected attributes (set one by one: the C implementation wants real dicts / strings)"""
    e = ET.Element(tag) if parent is None else ET.SubElement(parent, tag)
    for (k, v), p in zip(pairs, present):
        if p:
            e.set(k, v)
    return e


ELEMENTS = ('constant', 'typedef', 'enum', 'struct', 'union', 'message')


def isar_element_total(kind_sel, p0, p1, p2, p3, p4, p5, p6, p7):
    """kind_sel selects the element kind; p0.. = presence of the attributes of the element / its member / its dimension"""
    from prophyc import model
    from prophyc.parsers import isar
    from prophyc.generators.python import _PythonTranslator
    kind = ELEMENTS[0]
    for k, name in enumerate(ELEMENTS):
        if kind_sel == k:
            kind = name
    if kind == 'constant':
        e = _elem('constant', [('name', 'K'), ('value', '3')], [p0, p1])
        make = isar.make_constant
    elif kind == 'typedef':
        e = _elem('typedef', [('name', 'T'), ('type', 'u8'), ('primitiveType', '8 bit integer unsigned')], [p0, p1, p2])
        make = isar.make_typedef
    elif kind == 'enum':
        e = _elem('enum', [('name', 'E')], [p0])
        _elem('enum-member', [('name', 'E_A'), ('value', '1')], [p1, p2], e)
        if p3:
            _elem('enum-member', [('name', 'E_B'), ('value', '-2')], [p4, p5], e)
        make = isar.make_enum
    elif kind == 'union':
        e = _elem('union', [('name', 'U')], [p0])
        _elem('member', [('name', 'a'), ('type', 'u8'), ('discriminatorValue', '1')], [p1, p2, p3], e)
        make = isar.make_union
    else:
        e = _elem(kind, [('name', 'X')], [p0])
        m = _elem('member', [('name', 'a'), ('type', 'u16'), ('optional', 'true')], [p1, p2, p3], e)
        if p4:
            _elem('dimension', [('size', '2'), ('isVariableSize', 'true'), ('variableSizeFieldName', 'cnt')], [p5, p6, p7], m)
        if kind == 'message':
            make = lambda x: isar.make_struct(x, last_member_array_is_dynamic=True)      # noqa: E731
        else:
            make = isar.make_struct

    def run():
        node = make(e)
        if node is None:
            return True
        nodes, _ = model.evaluate_model([node])
        if isinstance(node, model.Constant):
            _PythonTranslator.translate_constant(node)
        elif isinstance(node, model.Typedef):
            _PythonTranslator.translate_typedef(node)
        elif isinstance(node, model.Enum):
            _PythonTranslator.translate_enum(node)
        elif isinstance(node, model.Struct):
            _PythonTranslator.translate_struct(node)
        elif isinstance(node, model.Union):
            _PythonTranslator.translate_union(node)
        return True
    _guard(run)
    return True


def _generate_all(nodes):
    """what the three back-ends do with the evaluated model, without writing files"""
    from prophyc.generators.python import PythonGenerator
    from prophyc.generators.cpp import CppGenerator
    from prophyc.generators.cpp_full import CppFullGenerator
    from prophyc.generators.base import GenerateError
    for G in (PythonGenerator, CppGenerator, CppFullGenerator):
        g = G('out')
        try:
            g.check_nodes(nodes)
        except GenerateError:
            continue                                   # designed refusal of this back-end ("byte size unknown", ...)
        for ext in sorted(g.top_level_translators):
            g.top_level_translators[ext]()(nodes, 'base')


TYPE_VALUES = ['u16', 'S', 'E', 'N', 'Nope', '']              # builtin, struct, enum, a constant's name, undefined, empty
NAME_VALUES = ['a', '', 'N', 'S']                            # plain, empty, clashing with a constant / a struct
SIZER_VALUES = ['cnt', '@pre', '@nope', '', '@']             # new counter name, existing field, dangling reference, empty, bare @
SIZE_VALUES = ['2', 'N', 'E_A', 'Nope', 'S', 'THIS_IS_VARIABLE_SIZE_ARRAY', '0', '-1']
PRIM_VALUES = ['8 bit integer unsigned', 'u8', 'nonsense', '']


def isar_values_total(kind_sel, v0, v1, v2, v3, flag):
    """all attributes present, their *values* chosen from pools of valid, empty, dangling and wrong-kind references
    (kind_sel: 0 struct member with a dimension, 1 message member, 2 typedef, 3 union member); the element lives next to
    a constant N, an enum E and a struct S; builders, evaluate_model and all three back-ends must stay in the designed channel"""
    from prophyc import model
    from prophyc.parsers import isar
    ctx = [model.Constant('N', '3'), model.Enum('E', [model.EnumMember('E_A', '1'), model.EnumMember('E_B', '2')]),
           model.Struct('S', [model.StructMember('x', 'u8')]), model.Struct('A', [model.StructMember('v', 'u8', size='N')])]
    if kind_sel == 2:
        e = ET.Element('typedef')
        e.set('name', _pick(['T', 'N', ''], v0))
        if flag:
            e.set('type', _pick(TYPE_VALUES, v1))
        else:
            e.set('primitiveType', _pick(PRIM_VALUES, v2))
        make = isar.make_typedef
    elif kind_sel == 3:
        e = ET.Element('union')
        e.set('name', 'U')
        m = ET.SubElement(e, 'member')
        m.set('name', _pick(NAME_VALUES, v0))
        m.set('type', _pick(TYPE_VALUES, v1))
        m.set('discriminatorValue', _pick(['1', 'E_A', 'N', 'Nope', 'S', '', '-1'], v2))
        make = isar.make_union
    else:
        e = ET.Element('message' if kind_sel == 1 else 'struct')
        e.set('name', 'X')
        p = ET.SubElement(e, 'member')
        p.set('name', 'pre')
        p.set('type', 'u8')
        m = ET.SubElement(e, 'member')
        m.set('name', _pick(NAME_VALUES, v0))
        m.set('type', _pick(TYPE_VALUES, v1))
        d = ET.SubElement(m, 'dimension')
        d.set('size', _pick(SIZE_VALUES, v2))
        if flag:
            d.set('isVariableSize', 'true')
        d.set('variableSizeFieldName', _pick(SIZER_VALUES, v3))
        if kind_sel == 1:
            make = lambda x: isar.make_struct(x, last_member_array_is_dynamic=True)      # noqa: E731
        else:
            make = isar.make_struct

    def run():
        node = make(e)
        if node is None:
            return True
        nodes, _ = model.evaluate_model(ctx + [node])
        _generate_all(nodes)
        return True
    _guard(run)
    return True


ACTIONS = ['type', 'insert', 'remove', 'dynamic', 'greedy', 'static', 'limited', 'rename', 'bogus']
PARAMS = [[], ['a'], ['a', 'u64'], ['1', 'ins', 'u32'], ['zz', 'ins', 'u32'], ['x', 'n'], ['x', 'nosuch'], ['x', '3'], ['x', '-1'], ['nosuch', 'u8'],
          ['a', 'b', 'c', 'd'], ['o'], ['99', 'ins', 'u32'], ['-1', 'ins', 'u32']]


def _pick(values, i):
    for k, v in enumerate(values[:-1]):
        if i == k:
            return v
    return values[-1]


def patch_line_total(nwords, action_sel, params_sel, target_sel):
    """one patch line with nwords words (0 = blank line, 1 = the name only) ... through patch.parse and patch.patch"""
    from prophyc import model, patch
    from . import compharness as K
    target = _pick(['X', 'Nope', 'E'], target_sel)
    action = _pick(ACTIONS, action_sel)
    params = _pick(PARAMS, params_sel)
    words = [target, action] + list(params)
    if nwords < 2:
        words = words[:nwords]
    line = ' '.join(words) + '\n'
    fs = K.FakeFS()
    fs.files['/cwd/p.txt'] = line
    saved = patch.codecs
    patch.codecs = K._Codecs(fs)

    def run():
        patches = patch.parse('/cwd/p.txt')
        nodes = [model.Enum('E', [model.EnumMember('E_A', '1')]),
                 model.Struct('X', [model.StructMember('a', 'u8'), model.StructMember('x', 'u16', size='2'), model.StructMember('n', 'u8'),
                                    model.StructMember('o', 'u16', optional=True)])]
        patch.patch(nodes, patches)
        model.evaluate_model(nodes)
        return True
    try:
        _guard(run)
    finally:
        patch.codecs = saved
    return True


XML_TEXTS = ['<x', '<x><y></x>', '', 'plain text', '<x>&nosuch;</x>', '<x a="1" a="2"/>', '<x><struct name="X"><member name="a" type="u8"/></struct></x>']


def xml_text_total(sel):
    """malformed XML documents (concrete texts, chosen by a selector: expat is C code) end in the designed channel"""
    from prophyc.parsers import isar
    text = _pick(XML_TEXTS, sel)
    _guard(lambda: isar.IsarParser().parse(text, 'file.xml', None))
    return True


def explain(fn, args):
    try:
        globals()[fn.split('__')[0] == 'isar' and 'isar_element_total' or 'patch_line_total'](*args)
    except Internal as e:
        return dict(check='robust-' + fn.split('__')[0], kind='internal-exception', what=str(e))
    except Exception as e:        # noqa
        return dict(check='robust-' + fn.split('__')[0], kind='harness:' + type(e).__name__)
    return dict(check='robust-' + fn.split('__')[0], kind='passes?')
