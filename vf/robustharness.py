"""C13 harness library: malformed isar elements and bad patch lines end in prophyc's designed error channel.

Below the XML text parser (expat is C code): isar elements are built as ElementTree elements whose *attribute presence*
is symbolic (every subset of the attributes an element may carry), then the real make_* builders, model.evaluate_model and
the Python translator run on them.  Patch lines are assembled from a symbolic action and a symbolic parameter list and go
through the real patch.parse (file system stubbed) and patch.patch.

Designed channel = model.ParseError / model.ModelError, or an exception raised by an explicit `raise` statement in
prophyc's own code (its messages are written for the user).  Anything else - an exception coming out of a builtin or a
library call (TypeError from int(None, 0), AttributeError on None, ValueError from tuple unpacking, KeyError, IndexError) -
is an internal exception escaping as the answer."""
import linecache
import xml.etree.ElementTree as ET


def designed(exc):
    from prophyc import model
    if isinstance(exc, (model.ParseError, model.ModelError)):
        return True
    tb = exc.__traceback__
    last = None
    while tb is not None:
        last = tb
        tb = tb.tb_next
    if last is None:
        return False
    fn = last.tb_frame.f_code.co_filename
    if '/prophyc/' not in fn.replace('\\', '/'):
        return False
    line = linecache.getline(fn, last.tb_lineno).strip()
    return line.startswith('raise ')


def _site(exc):
    tb = exc.__traceback__
    last = None
    while tb is not None:
        if '/prophyc/' in tb.tb_frame.f_code.co_filename:
            last = tb
        tb = tb.tb_next
    if last is None:
        return '?'
    return '%s:%s' % (last.tb_frame.f_code.co_filename.split('/prophyc/')[-1], last.tb_frame.f_code.co_name)


class Internal(Exception):
    """carrier: an internal exception escaped (message = type and site), so that the counterexample replays by name"""


def _guard(fn):
    try:
        return fn()
    except Exception as e:       # noqa
        if designed(e):
            return None
        raise Internal('%s at %s' % (type(e).__name__, _site(e)))


def _elem(tag, pairs, present, parent=None):
    """an element carrying the selected attributes (set one by one: the C implementation wants real dicts / strings)"""
    e = ET.Element(tag) if parent is None else ET.SubElement(parent, tag)
    for (k, v), p in zip(pairs, present):
        if p:
            e.set(k, v)
    return e


ELEMENTS = ('constant', 'typedef', 'enum', 'struct', 'union', 'message')


def isar_element_total(kind_sel, p0, p1, p2, p3, p4, p5, p6, p7):
    """kind_sel selects the element kind; p0.. = presence of the attributes of the element / its member / its dimension"""
    from prophyc import model
    from prophyc.parsers import isar
    from prophyc.generators.python import _PythonTranslator
    kind = ELEMENTS[0]
    for k, name in enumerate(ELEMENTS):
        if kind_sel == k:
            kind = name
    if kind == 'constant':
        e = _elem('constant', [('name', 'K'), ('value', '3')], [p0, p1])
        make = isar.make_constant
    elif kind == 'typedef':
        e = _elem('typedef', [('name', 'T'), ('type', 'u8'), ('primitiveType', '8 bit integer unsigned')], [p0, p1, p2])
        make = isar.make_typedef
    elif kind == 'enum':
        e = _elem('enum', [('name', 'E')], [p0])
        _elem('enum-member', [('name', 'E_A'), ('value', '1')], [p1, p2], e)
        if p3:
            _elem('enum-member', [('name', 'E_B'), ('value', '-2')], [p4, p5], e)
        make = isar.make_enum
    elif kind == 'union':
        e = _elem('union', [('name', 'U')], [p0])
        _elem('member', [('name', 'a'), ('type', 'u8'), ('discriminatorValue', '1')], [p1, p2, p3], e)
        make = isar.make_union
    else:
        e = _elem(kind, [('name', 'X')], [p0])
        m = _elem('member', [('name', 'a'), ('type', 'u16'), ('optional', 'true')], [p1, p2, p3], e)
        if p4:
            _elem('dimension', [('size', '2'), ('isVariableSize', 'true'), ('variableSizeFieldName', 'cnt')], [p5, p6, p7], m)
        if kind == 'message':
            make = lambda x: isar.make_struct(x, last_member_array_is_dynamic=True)      # noqa: E731
        else:
            make = isar.make_struct

    def run():
        node = make(e)
        if node is None:
            return True
        nodes, _ = model.evaluate_model([node])
        if isinstance(node, model.Constant):
            _PythonTranslator.translate_constant(node)
        elif isinstance(node, model.Typedef):
            _PythonTranslator.translate_typedef(node)
        elif isinstance(node, model.Enum):
            _PythonTranslator.translate_enum(node)
        elif isinstance(node, model.Struct):
            _PythonTranslator.translate_struct(node)
        elif isinstance(node, model.Union):
            _PythonTranslator.translate_union(node)
        return True
    _guard(run)
    return True


ACTIONS = ['type', 'insert', 'remove', 'dynamic', 'greedy', 'static', 'limited', 'rename', 'bogus']
PARAMS = [[], ['a'], ['a', 'u64'], ['1', 'ins', 'u32'], ['zz', 'ins', 'u32'], ['x', 'n'], ['x', 'nosuch'], ['x', '3'], ['x', '-1'], ['nosuch', 'u8'],
          ['a', 'b', 'c', 'd'], ['o'], ['99', 'ins', 'u32'], ['-1', 'ins', 'u32']]


def _pick(values, i):
    for k, v in enumerate(values[:-1]):
        if i == k:
            return v
    return values[-1]


def patch_line_total(nwords, action_sel, params_sel, target_sel):
    """one patch line with nwords words (0 = blank line, 1 = the name only) ... through patch.parse and patch.patch"""
    from prophyc import model, patch
    from . import compharness as K
    target = _pick(['X', 'Nope', 'E'], target_sel)
    action = _pick(ACTIONS, action_sel)
    params = _pick(PARAMS, params_sel)
    words = [target, action] + list(params)
    if nwords < 2:
        words = words[:nwords]
    line = ' '.join(words) + '\n'
    fs = K.FakeFS()
    fs.files['/cwd/p.txt'] = line
    saved = patch.codecs
    patch.codecs = K._Codecs(fs)

    def run():
        patches = patch.parse('/cwd/p.txt')
        nodes = [model.Enum('E', [model.EnumMember('E_A', '1')]),
                 model.Struct('X', [model.StructMember('a', 'u8'), model.StructMember('x', 'u16', size='2'), model.StructMember('n', 'u8'),
                                    model.StructMember('o', 'u16', optional=True)])]
        patch.patch(nodes, patches)
        model.evaluate_model(nodes)
        return True
    try:
        _guard(run)
    finally:
        patch.codecs = saved
    return True


XML_TEXTS = ['<x', '<x><y></x>', '', 'plain text', '<x>&nosuch;</x>', '<x a="1" a="2"/>', '<x><struct name="X"><member name="a" type="u8"/></struct></x>']


def xml_text_total(sel):
    """malformed XML documents (concrete texts, chosen by a selector: expat is C code) end in the designed channel"""
    from prophyc.parsers import isar
    text = _pick(XML_TEXTS, sel)
    _guard(lambda: isar.IsarParser().parse(text, 'file.xml', None))
    return True


def explain(fn, args):
    try:
        globals()[fn.split('__')[0] == 'isar' and 'isar_element_total' or 'patch_line_total'](*args)
    except Internal as e:
        return dict(check='robust-' + fn.split('__')[0], kind='internal-exception', what=str(e))
    except Exception as e:        # noqa
        return dict(check='robust-' + fn.split('__')[0], kind='harness:' + type(e).__name__)
    return dict(check='robust-' + fn.split('__')[0], kind='passes?')
