"""C03 - Python and generated C++ full codec are wire-compatible (E2: IR of decode/encode on the reference bytes with
symbolic scalar leaves; 'what Python wrote' == reference bytes is C01's obligation, re-run here on the C++-eligible family)."""
import os
import time

from . import common as C
from . import wirespec as W
from . import family as F
from . import cppharness as X
from . import codec_e1


def build_tasks(chunks, tier, ftier, query='q_roundtrip', ends=('le', 'be', 'na'), cap=None, tag='rt'):
    tasks = []
    cap = cap or (5 if tier == 'quick' else 24)
    for c in chunks:
        if c['error']:
            continue
        for s in c['shapes']:
            profs = X.enumerate_profiles(s, cap=cap)
            for (lens, pres, arms) in profs:
                for e in ends:
                    pid = 'n%s.p%s.a%s' % ('x'.join(map(str, lens)) or '-', ''.join(map(str, pres)) or '-', ''.join(map(str, arms)) or '-')
                    oid = '%s/%s/%s/%s' % (s.name, tag, e, pid)
                    tasks.append(dict(query=query, oid=oid, ll=c['ll'], chunk=c['idx'], shape=s.name, family=ftier, e=e, lens=list(lens), pres=list(pres),
                                      arms=list(arms), timeout=60 if tier == 'quick' else 300,
                                      desc=dict(shape=s.name, check=tag, endianness=e, lengths=list(lens), presence=list(pres), arms=list(arms),
                                                symbolic='every scalar / enum leaf of the value (bit-vectors)')))
    pat = os.environ.get('VF_ONLY')
    if pat:
        tasks = [t for t in tasks if pat in t['oid']]
    return tasks


def run(tier):
    t0 = time.time()
    work = C.workdir('C03')
    W.self_check()
    ftier = 'quick' if tier == 'quick' else 'thorough'
    shapes = [s for s in F.family(ftier) if F.cpp_full_eligible(s)]
    chunks = X.prepare(work, shapes, chunk=8)
    errors = [c['error'] for c in chunks if c['error']]
    tasks = build_tasks(chunks, tier, ftier, ends=('le', 'be') if tier == 'quick' else ('le', 'be', 'na'))
    # the other direction: encode<E> of an arbitrary C++ object (structure per query, scalars symbolic) equals the
    # canonical encoding of its value - what the Python codec reads
    ctasks = build_tasks(chunks, tier, ftier, query='q_size_agreement', ends=('both',), cap=4 if tier == 'quick' else 16, tag='enc-canonical')
    for t in ctasks:
        t['canonical'] = True
        t['ends'] = ['le', 'be']
    # translator validation (Serval-style): the IR executor on fully concrete inputs against the natively compiled code
    vtasks = build_tasks(chunks, tier, ftier, query='q_engine_validation', ends=('le', 'be'), cap=2 if tier == 'quick' else 6, tag='engine-validation')
    for i, t in enumerate(vtasks):
        t['seed'] = i + int(os.environ.get('VERIF_SEED', '0') or 0)
        t['desc']['symbolic'] = 'nothing: concrete differential run of the executor against the native build'
    results = X.run_tasks(tasks + ctasks + vtasks)
    from . import p_c05

    def confirm(chunk, shape, e, viol, L_):
        if viol.get('_desc', {}).get('check') == 'enc-canonical':
            return p_c05.confirm(chunk, shape, e, viol, L_)
        return X.confirm_decode_violation(chunk, shape, e, viol, L_)
    for r in results:
        for v in r.get('violations', []):
            v['_desc'] = r['desc']
    obs = X.to_obligations('C03', results, chunks, 'roundtrip', confirm=confirm)
    # link: the Python codec writes exactly the reference bytes (C01's assertion) on the same family
    if not os.environ.get('VF_ONLY'):
        pobs, conds, fam, _ = codec_e1.run_value_checks('C03', tier, ['enc'], shape_filter=F.cpp_full_eligible, cap=2 if tier == 'quick' else 6, family_tier=ftier)
        for o in pobs:
            o.oid = 'python-link/' + o.oid
        obs += pobs
    return C.finish('C03', tier, obs, t0,
                    functions=['message<X>::decode<E> / encode<E> (IR)', 'message_impl<X>::decode/encode<E> (generated)', 'decoder<> / encoder<> specialisations',
                               'decode_int / encode_int', 'do_decode(optional<T>&) / do_encode(optional)', 'do_decode_resize/advance/align/greedy/in_place',
                               'X::X()', 'X::get_byte_size()', 'libstdc++ vector growth (executed)', 'python link: prophy struct.encode etc. (see C01)'],
                    bounds=dict(family='C++-eligible F (%d shapes)' % len(shapes), lengths='{0,1,2} per array', presence_and_arms='enumerated per query (concrete), up to a cap per shape',
                                values='all scalar / enum leaves symbolic; floats as opaque 32/64-bit patterns', byte_orders='little, big (thorough: + native)'),
                    assumptions=['reference bytes = vf/wirespec.py over z3 bit-vector terms', 'IR from clang++-14 -O1 -fno-exceptions', 'native replay (g++ ASan/UBSan) before reporting'],
                    extra=dict(build_errors=errors[:5]), errors=errors[:3])
