"""C12 harness library: whatever prophyc's front-end accepts, the Python runtime can realise; documented rule breakers
are rejected.  Members are described by small symbolic integers; the front-end validation functions of the real
parser are called directly on model members built from them (i.e. below the grammar), the generated Python text of
the real translator is exec-ed against the real runtime (prophy.optional / array / bytes / metaclasses)."""

TYPES = ['u8', 'i32', 'float', 'EN', 'SF', 'SD', 'SU', 'SDU', 'UN']  # builtin ints, float, enum, fixed / dynamic / unlimited struct, dynamic array + unlimited tail, union
FORMS = ['plain', 'optional', 'fixed', 'dynamic', 'limited', 'greedy', 'ext']
SIZER_T = ['u8', 'i32', 'float', 'EN', 'SF', 'TU8']                 # TU8: typedef of u8

_ENV = {}


def env():
    """helper definitions: model node + runtime class for every non-builtin type name"""
    if _ENV:
        return _ENV
    import prophy
    from prophyc import model
    nodes = dict(
        EN=model.Enum('EN', [model.EnumMember('EN_A', '0'), model.EnumMember('EN_B', '1')]),
        SF=model.Struct('SF', [model.StructMember('x', 'u8')]),
        SD=model.Struct('SD', [model.StructMember('n', 'u32'), model.StructMember('x', 'u8', bound='n')]),
        SU=model.Struct('SU', [model.StructMember('x', 'u8', greedy=True)]),
        UN=model.Union('UN', [model.UnionMember('a', 'u8', '1')]),
        TU8=model.Typedef('TU8', 'u8'),
    )
    # a dynamic array followed by a nested unlimited struct: unlimited, although its own last member is not greedy
    nodes['SDU'] = model.Struct('SDU', [model.StructMember('n', 'u32'), model.StructMember('x', 'u8', bound='n'),
                                        model.StructMember('t', 'SU', definition=nodes['SU'])])

    class EN(prophy.with_metaclass(prophy.enum_generator, prophy.enum)):
        _enumerators = [('EN_A', 0), ('EN_B', 1)]

    class SF(prophy.with_metaclass(prophy.struct_generator, prophy.struct)):
        _descriptor = [('x', prophy.u8)]

    class SD(prophy.with_metaclass(prophy.struct_generator, prophy.struct)):
        _descriptor = [('n', prophy.u32), ('x', prophy.array(prophy.u8, bound='n'))]

    class SU(prophy.with_metaclass(prophy.struct_generator, prophy.struct)):
        _descriptor = [('x', prophy.array(prophy.u8))]

    class SDU(prophy.with_metaclass(prophy.struct_generator, prophy.struct)):
        _descriptor = [('n', prophy.u32), ('x', prophy.array(prophy.u8, bound='n')), ('t', SU)]

    class UN(prophy.with_metaclass(prophy.union_generator, prophy.union)):
        _descriptor = [('a', prophy.u8, 1)]
    _ENV.update(nodes=nodes, classes=dict(EN=EN, SF=SF, SD=SD, SU=SU, SDU=SDU, UN=UN, TU8=prophy.u8))
    return _ENV


def _pick(values, i):
    for k, v in enumerate(values[:-1]):
        if i == k:
            return v
    return values[-1]


STIFF = {'u8': 0, 'i32': 0, 'float': 0, 'EN': 0, 'SF': 0, 'SD': 1, 'SU': 2, 'SDU': 2, 'UN': 0}


def mk_member(name, tname, form, sizer_name):
    from prophyc import model
    e = env()
    mt = {'float': 'r32'}.get(tname, tname)
    defn = e['nodes'].get(tname)
    if form == 'plain':
        return [model.StructMember(name, mt, definition=defn)]
    if form == 'optional':
        return [model.StructMember(name, mt, definition=defn, optional=True)]
    if form == 'fixed':
        return [model.StructMember(name, mt, definition=defn, size='2')]
    if form == 'dynamic':
        return [model.StructMember('num_of_' + name, 'u32'), model.StructMember(name, mt, definition=defn, bound='num_of_' + name)]
    if form == 'limited':
        return [model.StructMember('num_of_' + name, 'u32'), model.StructMember(name, mt, definition=defn, bound='num_of_' + name, size='2')]
    if form == 'greedy':
        return [model.StructMember(name, mt, definition=defn, greedy=True)]
    return [model.StructMember(name, mt, definition=defn, bound=sizer_name)]


def legal_member(tname, form, is_last):
    """the documented composability rules for one member (docs/schema.rst)"""
    st = STIFF[tname]
    if st == 2 and not is_last:
        return False                     # unlimited type only as the last field
    if form == 'plain':
        return True
    if form == 'optional':
        return st == 0                   # optional cannot hold dynamic nor unlimited struct
    if form in ('fixed', 'limited'):
        return st == 0                   # fixed / limited array cannot hold dynamic nor unlimited struct
    if form == 'greedy':
        return is_last and st != 2       # greedy only last; unlimited type inside any array is excluded
    return st != 2                       # dynamic / ext array: no unlimited elements


def struct_coherent(t0, f0, t1, f1, has_post, sizer_pos, sizer_t, dup_name):
    """front-end acceptance => runtime class creation succeeds; front-end acceptance => all documented rules hold.
    sizer_pos: 0 before the arrays, 1 after, 2 missing, 3 the array names itself as its sizer (used when a member has
    form 'ext'); dup_name: second member reuses the first member's name"""
    import prophy
    from prophyc import model
    from prophyc.parsers.prophy import Parser
    from prophyc.generators.python import _PythonTranslator
    e = env()
    tn0, tn1 = _pick(TYPES, t0), _pick(TYPES, t1)
    fm0, fm1 = _pick(FORMS, f0), _pick(FORMS, f1)
    uses_ext = fm0 == 'ext' or fm1 == 'ext'
    st = _pick(SIZER_T, sizer_t) if uses_ext else 'u8'      # (sizer choices only matter - and only fork - when an ext array exists)
    members = []
    sizer = [model.StructMember('sz', {'float': 'r32'}.get(st, st), definition=e['nodes'].get(st))]
    if uses_ext and sizer_pos == 0:
        members += sizer
    n1 = 'm0' if dup_name else 'm1'
    members += mk_member('m0', tn0, fm0, 'm0' if sizer_pos == 3 else 'sz')
    members += mk_member(n1, tn1, fm1, n1 if sizer_pos == 3 else 'sz')
    if uses_ext and sizer_pos == 1:
        members += sizer
    if has_post:
        members.append(model.StructMember('post', 'u8'))
    p = Parser.__new__(Parser)
    p._init_parse_data('t')
    p.typedecls = dict(e['nodes'])

    class _L(object):
        lexdata = ''
        lineno = 1
    p.lexer = _L()
    p._validate_struct_members([(m, 1, 0) for m in members])
    frontend_ok = not p.errors
    node = None
    if frontend_ok:
        try:
            node = model.Struct('X', members)
        except model.ModelError:
            frontend_ok = False
    # documented rules
    last0 = not has_post and False
    legal = legal_member(tn0, fm0, False) and legal_member(tn1, fm1, not has_post and not (uses_ext and sizer_pos == 1))
    if dup_name:
        legal = False
    if uses_ext:
        if sizer_pos != 0:
            legal = False                # sizer missing or after its array
        if st not in ('u8', 'i32', 'TU8'):
            legal = False                # sizer must be an integer
    if frontend_ok and not legal:
        return False
    if not frontend_ok:
        return True
    text = _PythonTranslator.translate_struct(node)
    ns = {'prophy': prophy}
    ns.update(e['classes'])
    try:
        exec(text, ns)
    except prophy.ProphyError:
        return False                      # accepted by prophyc, refused by the runtime: the generated module would not import
    return True


DISCS = [1, 2, 0, 2 ** 31, 2 ** 32 - 1, 2 ** 32, -1]


def union_coherent(t0, t1, dsel0, dsel1, dup_name, with_array):
    import prophy
    from prophyc import model
    from prophyc.parsers.prophy import Parser
    from prophyc.generators.python import _PythonTranslator
    e = env()
    tn0, tn1 = _pick(TYPES, t0), _pick(TYPES, t1)
    d0, d1 = _pick(DISCS, dsel0), _pick(DISCS, dsel1)
    p = Parser.__new__(Parser)
    p._init_parse_data('t')
    p.typedecls = dict(e['nodes'])

    class _L(object):
        lexdata = ''
        lineno = 1
    p.lexer = _L()

    class _T(list):
        lexer = _L()

        def lineno(self, i):
            return 1

        def lexpos(self, i):
            return 0
    # arms are produced by the real semantic action of `union_member : expression COLON type_spec ID`
    arms = []
    for dv, tn, nm in ((d0, tn0, 'a0'), (d1, tn1, 'a0' if dup_name else 'a1')):
        t = _T([None, dv, ':', ({'float': 'r32'}.get(tn, tn), e['nodes'].get(tn)), nm])
        p.p_union_member(t)
        arms.append(t[0])
    try:
        p.p_union_def(_T([None, 'union', 'U', arms]))
        frontend_ok = not p.errors
    except model.ModelError:
        frontend_ok = False
    legal = STIFF[tn0] == 0 and STIFF[tn1] == 0 and not dup_name and d0 != d1 and 0 <= d0 < 2 ** 32 and 0 <= d1 < 2 ** 32
    if frontend_ok and not legal:
        return False
    if not frontend_ok:
        return True
    text = _PythonTranslator.translate_union(p.nodes[-1])
    ns = {'prophy': prophy}
    ns.update(e['classes'])
    try:
        exec(text, ns)
        u = ns['U']()
        u.encode('<')
    except prophy.ProphyError:
        return False
    return True


ENUMV = [0, 1, 2 ** 31, 2 ** 32 - 1, 2 ** 32, -1, 5]


def enum_coherent(vsel0, vsel1, dup_name):
    """enum members: values must fit 32 bits, names unique (front-end level: the real parser actions on enumerator values)"""
    import prophy
    from prophyc import model
    from prophyc.parsers.prophy import Parser
    from prophyc.generators.python import _PythonTranslator
    from . import exprharness as X
    v0, v1 = _pick(ENUMV, vsel0), _pick(ENUMV, vsel1)
    text = 'enum E { E_A = %s, %s = %s };\n' % (('(0 - 1)' if v0 < 0 else str(v0)), 'E_A' if dup_name else 'E_B', ('(0 - 1)' if v1 < 0 else str(v1)))
    try:
        nodes, errors = X.run_parser(text, {})
        frontend_ok = not errors
    except model.ModelError:
        frontend_ok = False               # duplicate identifier: reported through prophyc's ModelError channel
    legal = 0 <= v0 < 2 ** 32 and 0 <= v1 < 2 ** 32 and not dup_name
    if frontend_ok and not legal:
        return False
    if not frontend_ok:
        return True
    pytext = _PythonTranslator.translate_enum(nodes[0])
    ns = {'prophy': prophy}
    try:
        exec(pytext, ns)
    except prophy.ProphyError:
        return False
    return True


def explain(fn, rerun, decode):
    exc = None
    try:
        rerun()
    except Exception as e:     # noqa
        exc = type(e).__name__
    d = decode()
    d.update(check='acceptance-coherence', kind=('exception:' + exc) if exc else 'accepted-but-illegal-or-unrealisable')
    return d
