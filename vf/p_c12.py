"""C12 - whatever prophyc accepts, every back-end can realise; rule breakers are rejected (E1, shape-symbolic, below the
grammar).  By-product (not solver-decided, reported separately): every family schema compiled for the E2 checks must
pass prophyc and compile; that is observed by C03/C05/C07/C08/C09 as build errors."""
import os
import time

from . import common as C
from . import acceptharness as A
from .chrun import Cond, run_conditions, to_obligations, concrete_reach

HEAD = '''# generated harness module (E1, acceptance coherence)
from vf import pyharness as H, acceptharness as A, exprharness as X
H.setup(formatting_stub=False, int_str=True)
A.env()
X.parser()


def explain(fn, args, kwargs):
    fam = fn.split('__')[0]

    def decode():
        if fam == 'st':
            t0, f0 = int(fn.split('__')[1]), int(fn.split('__')[2])
            return dict(first='%s:%s' % (A.TYPES[t0], A.FORMS[f0]), second='%s:%s' % (A.TYPES[args[0]], A.FORMS[args[1]]))
        if fam == 'un':
            return dict(arms='%s,%s' % (A.TYPES[int(fn.split('__')[1])], A.TYPES[args[0]]), discs='%s,%s' % (A.DISCS[args[1]], A.DISCS[args[2]]))
        return dict(values='%s,%s' % (A.ENUMV[args[0]], A.ENUMV[args[1]]))
    return A.explain(fn, lambda: globals()[fn](*args), decode)

'''


def compile_family(tier):
    """By-product of the property's first sentence, NOT solver-decided (engine 'compiler'): every family schema that
    prophyc accepts must yield C++ full and raw sources that compile against the shipped headers (clang++-14, the same
    translation units the E2 checks execute).  A chunk that fails is re-built shape by shape to name the culprit."""
    from . import family as F
    from . import cppharness as X
    from . import rawharness as R
    from .common import Obligation, DISCHARGED, VIOLATED, ERROR
    out = []
    fam = F.family('quick' if tier == 'quick' else 'thorough')
    if tier != 'quick':
        fam = fam[:400]
    for backend, raw, shapes, driver in (('cpp_full', False, [s for s in fam if F.cpp_full_eligible(s)], X.driver_source), ('cpp_raw', True, fam, R.raw_driver)):
        work = C.workdir('C12-' + backend)
        chunks = X.prepare(work, shapes, chunk=8, raw=raw, driver=driver)
        for c in chunks:
            o = Obligation('compile/%s/chunk%03d' % (backend, c['idx']), 'compiler', dict(check='generated C++ compiles', backend=backend, shapes=c['names']))
            o.paths = 1
            if not c['error']:
                o.verdict = DISCHARGED
                o.nontrivial = True
                out.append(o)
                continue
            culprit, msg = None, c['error']
            for s in c['shapes']:
                sub = X.prepare(C.workdir('C12-%s-one' % backend), [s], chunk=1, raw=raw, driver=driver)
                if sub[0]['error']:
                    culprit, msg = s, sub[0]['error']
                    break
            o.verdict = VIOLATED
            o.replayed = True
            first = [l for l in msg.splitlines() if 'error' in l][:1]
            kind = 'prophyc-rejects-family-schema' if msg.startswith('prophyc failed') else 'generated-source-does-not-compile'
            o.signature = dict(check='compile', backend=backend, kind=kind)
            o.detail = '%s: %s | %s' % (kind, culprit.name if culprit else c['names'], (first[0] if first else msg)[-300:])
            o.witness = dict(shape=culprit.name if culprit else None, compiler_output=msg[-800:])
            o.replay_path = C.write_replay('C12', 800 + len(out), dict(property='C12', kind='compile', backend=backend, shape=culprit.name if culprit else None,
                                                                        schema_text=c['text'], compiler_output=msg[-2000:]))
            out.append(o)
    return out


def run(tier):
    t0 = time.time()
    work = C.workdir('C12')
    path = os.path.join(work, 'accept.py')
    body = [HEAD]
    conds = []
    ntypes = len(A.TYPES)
    types0 = range(ntypes) if tier != 'quick' else [0, 4, 5, 6]
    for a in types0:
        for f in range(len(A.FORMS)):
            # a first member of form 'ext' makes the sizer position / type matter on every path: one condition per position
            splits = [None] if A.FORMS[f] != 'ext' else [0, 1, 2, 3]
            for sp in splits:
                fn = 'st__%d__%d' % (a, f) + ('' if sp is None else '__s%d' % sp)
                sp_pre = '0 <= sizer_pos <= 3' if sp is None else 'sizer_pos == %d' % sp
                body.append('def %s(t1: int, f1: int, has_post: bool, sizer_pos: int, sizer_t: int, dup_name: bool) -> bool:\n    """\n'
                            '    pre: 0 <= t1 < %d and 0 <= f1 < %d and %s and 0 <= sizer_t < %d\n'
                            '    pre: (not dup_name) or (has_post and sizer_pos == 0 and sizer_t == 0)\n    post: _\n    """\n'
                            '    return A.struct_coherent(%d, %d, t1, f1, has_post, sizer_pos, sizer_t, dup_name)\n\n'
                            % (fn, ntypes, len(A.FORMS), sp_pre, len(A.SIZER_T), a, f))
                conds.append(Cond(path, fn, 'struct/%s:%s+any' % (A.TYPES[a], A.FORMS[f]) + ('' if sp is None else '/sizer-pos%d' % sp),
                                  dict(check='struct acceptance coherence', first_member='%s %s' % (A.TYPES[a], A.FORMS[f]),
                                       symbolic='second member type and form, trailing member, sizer position / type, duplicate name'),
                                  sample_args=[0, 0, True, sp or 0, 0, False]))
    for a in range(ntypes):
        body.append('def un__%d(t1: int, dsel0: int, dsel1: int, dup_name: bool) -> bool:\n    """\n'
                    '    pre: 0 <= t1 < %d and 0 <= dsel0 < %d and 0 <= dsel1 < %d\n    post: _\n    """\n'
                    '    return A.union_coherent(%d, t1, dsel0, dsel1, dup_name, False)\n\n' % (a, ntypes, len(A.DISCS), len(A.DISCS), a))
        conds.append(Cond(path, 'un__%d' % a, 'union/%s+any' % A.TYPES[a], dict(check='union acceptance coherence', first_arm=A.TYPES[a],
                                                                                symbolic='second arm type, discriminator magnitudes, duplicate name'),
                          sample_args=[4, 0, 1, False]))
    body.append('def en__0(vsel0: int, vsel1: int, dup_name: bool) -> bool:\n    """\n    pre: 0 <= vsel0 < %d and 0 <= vsel1 < %d\n    post: _\n    """\n'
                '    return A.enum_coherent(vsel0, vsel1, dup_name)\n\n' % (len(A.ENUMV), len(A.ENUMV)))
    conds.append(Cond(path, 'en__0', 'enum/2-members', dict(check='enum acceptance coherence', symbolic='enumerator magnitudes, duplicate name'), sample_args=[0, 1, False]))
    with open(path, 'w') as f:
        f.write(''.join(body))
    conds = C.only(conds)
    raw = run_conditions(conds, 240 if tier == 'quick' else 1200)
    obs, _ = to_obligations('C12', conds, raw)
    concrete_reach(conds, obs)
    if not os.environ.get('VF_ONLY'):
        obs += compile_family(tier)
    return C.finish('C12', tier, obs, t0,
                    functions=['prophyc.parsers.prophy.Parser._validate_struct_members / _is_type_sizer_compatible / p_union_def / p_enum_member / p_enum_def',
                               'prophyc.model.Struct / Union constructors (duplicate checks), calc_wire_stiffness', 'prophyc.generators.python._PythonTranslator.translate_struct / translate_union / translate_enum',
                               'prophy.optional, prophy.array, prophy.bytes, struct_generator.validate / add_sizers, union_generator.validate, enum_generator.validate'],
                    bounds=dict(struct='2 described members (+ optional trailing u8, + sizer): types %s x forms %s' % (A.TYPES, A.FORMS), union='2 arms', enum='2 members',
                                magnitudes='discriminators / enumerators from %s' % (A.DISCS,),
                                outside='rules enforced purely by the grammar; arbitrary schema text; C++ compilability (observed as build errors of the E2 checks, not solver-decided)'),
                    assumptions=['documented rules as encoded in vf/acceptharness.py legal_member() from docs/schema.rst', 'front-end validation called below the grammar on model members'])
