"""Library used by generated E1 harness modules (symbolically under CrossHair and concretely in replays).

Only the *public* prophy API is used to build and observe messages.
"""
import os
import sys
import importlib.util

from . import wirespec as W
from .wirespec import Scalar, Enum, Struct, Union, Field, strip

FLOAT_SAMPLES = [0.0, 1.5, -2.25e10]


# ---------------------------------------------------------------- engine set-up

def setup(formatting_stub=True, linear_to_bytes=True, int_str=False):
    if os.environ.get('VF_SYMBOLIC') == '1':
        from . import chpatches
        chpatches.install(formatting_stub=formatting_stub, linear_to_bytes=linear_to_bytes)
        if int_str:
            chpatches.int_str_roundtrip()


def symbytes(bs):
    """a byte string of concrete length whose bytes are the given (possibly symbolic) ints"""
    if os.environ.get('VF_SYMBOLIC') == '1':
        from crosshair.libimpl.builtinslib import SymbolicBytes
        return SymbolicBytes(list(bs))
    return bytes(bs)


def load_module(path, name=None):
    name = name or ('vfgen_' + os.path.splitext(os.path.basename(path))[0])
    if name in sys.modules:
        return sys.modules[name]
    d = os.path.dirname(path)
    if d not in sys.path:
        sys.path.insert(0, d)
    spec = importlib.util.spec_from_file_location(name, path)
    mod = importlib.util.module_from_spec(spec)
    sys.modules[name] = mod
    spec.loader.exec_module(mod)
    return mod


# ---------------------------------------------------------------- parameter plans

class NeedLength(Exception):
    def __init__(self, choices):
        self.choices = choices


class Plan(object):
    """records the parameters a value tree needs (names, types, preconditions), for a given length profile"""

    def __init__(self, lens):
        self.lens = list(lens)
        self.li = 0
        self.params = []     # (name, pytype, precondition or None, sample)
        self.fi = 0

    def length(self, choices):
        if self.li >= len(self.lens):
            raise NeedLength(choices)
        v = self.lens[self.li]
        self.li += 1
        return v

    def int(self, lo, hi):
        n = 'v%d' % len(self.params)
        sample = hi - (hi - lo) // 3
        self.params.append((n, 'int', '%d <= %s <= %d' % (lo, n, hi), sample))
        return sample

    def bool(self):
        n = 'p%d' % len(self.params)
        self.params.append((n, 'bool', None, True))
        return True

    def choice(self, k):
        n = 'c%d' % len(self.params)
        self.params.append((n, 'int', '0 <= %s < %d' % (n, k), k - 1))
        return k - 1

    def float(self):
        self.fi += 1
        return FLOAT_SAMPLES[self.fi % len(FLOAT_SAMPLES)]


class Feed(object):
    def __init__(self, lens, args):
        self.lens = list(lens)
        self.li = 0
        self.args = list(args)
        self.ai = 0
        self.fi = 0

    def length(self, choices):
        v = self.lens[self.li]
        self.li += 1
        return v

    def _next(self):
        v = self.args[self.ai]
        self.ai += 1
        return v

    def int(self, lo, hi):
        return self._next()

    def bool(self):
        return self._next()

    def choice(self, k):
        return self._next()

    def float(self):
        self.fi += 1
        return FLOAT_SAMPLES[self.fi % len(FLOAT_SAMPLES)]


def _pick(values, i):
    for k, v in enumerate(values[:-1]):
        if i == k:
            return v
    return values[-1]


def len_choices(form, is_bytes):
    if form == 'dynamic' or form == 'greedy' or form[0] == 'ext':
        return (0, 1, 2)
    if form[0] == 'limited':
        n = form[1]
        return tuple(sorted(set(x for x in (0, 1, 2, n) if x <= n)))
    raise ValueError(form)


def make_value(t, src):
    t = strip(t)
    if isinstance(t, Scalar):
        if t.flt:
            return src.float()
        if t.signed:
            return src.int(-(1 << (8 * t.size - 1)), (1 << (8 * t.size - 1)) - 1)
        return src.int(0, (1 << (8 * t.size)) - 1)
    if isinstance(t, Enum):
        i = src.choice(len(t.members))
        return _pick([m[1] for m in t.members], i)
    if isinstance(t, Union):
        d = src.choice(len(t.arms))
        vals = [(a[1], make_value(a[2], src)) for a in t.arms]
        return _pick(vals, d)
    if isinstance(t, Struct):
        out = {}
        sizers = W.sizer_names(t)
        ext_len = {}
        for f in t.fields:
            if f.name in sizers:
                continue
            form = f.form
            if form == 'plain':
                out[f.name] = make_value(f.type, src)
            elif form == 'optional':
                p = src.bool()
                v = make_value(f.type, src)
                out[f.name] = v if p else None
            else:
                if form[0] == 'fixed':
                    n = form[1]
                elif form[0] == 'ext':
                    if form[1] not in ext_len:
                        ext_len[form[1]] = src.length(len_choices(form, f.bytes))
                    n = ext_len[form[1]]
                else:
                    n = src.length(len_choices(form, f.bytes))
                if f.bytes:
                    out[f.name] = [src.int(0, 255) for _ in range(n)]
                else:
                    out[f.name] = [make_value(f.type, src) for _ in range(n)]
        return out
    raise TypeError(t)


def length_profiles(t):
    """every assignment of lengths to the variable-length arrays of a value of type t (choices per form)"""
    done = []
    stack = [[]]
    while stack:
        prefix = stack.pop()
        try:
            p = Plan(prefix)
            make_value(t, p)
            done.append(tuple(prefix))
        except NeedLength as e:
            for c in reversed(e.choices):
                stack.append(prefix + [c])
    return done


def select_profiles(profiles, cap):
    """deterministic subset: all-zero, all-max, then evenly spread"""
    if len(profiles) <= cap:
        return list(profiles)
    ps = sorted(profiles)
    chosen = [ps[0], ps[-1]]
    step = (len(ps) - 1) / float(cap - 1)
    for i in range(1, cap - 1):
        c = ps[int(round(i * step))]
        if c not in chosen:
            chosen.append(c)
    # prefer profiles that mix lengths
    for p in ps:
        if len(chosen) >= cap:
            break
        if p not in chosen and len(set(p)) > 1:
            chosen.append(p)
    return chosen[:cap]


def plan_for(t, lens):
    p = Plan(lens)
    make_value(t, p)
    return p


# ---------------------------------------------------------------- building / observing through the public API

def fill(msg, t, v):
    t = strip(t)
    sizers = W.sizer_names(t)
    for f in t.fields:
        if f.name in sizers:
            continue
        x = v[f.name]
        form = f.form
        ft = strip(f.type)
        if form == 'plain':
            if isinstance(ft, Struct):
                fill(getattr(msg, f.name), ft, x)
            elif isinstance(ft, Union):
                fillu(getattr(msg, f.name), ft, x)
            else:
                setattr(msg, f.name, x)
        elif form == 'optional':
            if x is None:
                continue
            if isinstance(ft, (Struct, Union)):
                setattr(msg, f.name, True)
                (fill if isinstance(ft, Struct) else fillu)(getattr(msg, f.name), ft, x)
            else:
                setattr(msg, f.name, x)
        elif f.bytes:
            setattr(msg, f.name, bytes(x) if all(type(b) is int for b in x) else symbytes(x))
        else:
            arr = getattr(msg, f.name)
            if isinstance(ft, (Struct, Union)):
                for i, e in enumerate(x):
                    el = arr[i] if form[0] == 'fixed' else arr.add()
                    (fill if isinstance(ft, Struct) else fillu)(el, ft, e)
            else:
                arr[:] = x


def fillu(msg, t, v):
    t = strip(t)
    msg.discriminator = v[0]
    at = strip(next(a[2] for a in t.arms if a[1] == v[0]))
    if isinstance(at, Struct):
        fill(getattr(msg, v[0]), at, v[1])
    elif isinstance(at, Union):
        fillu(getattr(msg, v[0]), at, v[1])
    else:
        setattr(msg, v[0], v[1])


def observe(msg, t):
    """read a message back into a value tree through public attributes only"""
    t = strip(t)
    if isinstance(t, Union):
        d = msg.discriminator
        arm = next(a for a in t.arms if a[0] == d)
        at = strip(arm[2])
        x = getattr(msg, arm[1])
        return (arm[1], observe(x, at) if isinstance(at, (Struct, Union)) else _scalar(x))
    out = {}
    sizers = W.sizer_names(t)
    for f in t.fields:
        if f.name in sizers:
            continue
        ft = strip(f.type)
        x = getattr(msg, f.name)
        form = f.form
        if form == 'plain':
            out[f.name] = observe(x, ft) if isinstance(ft, (Struct, Union)) else _scalar(x)
        elif form == 'optional':
            if x is None:
                out[f.name] = None
            else:
                out[f.name] = observe(x, ft) if isinstance(ft, (Struct, Union)) else _scalar(x)
        elif f.bytes:
            out[f.name] = list(x)
        else:
            out[f.name] = [observe(e, ft) if isinstance(ft, (Struct, Union)) else _scalar(e) for e in x]
    return out


def _scalar(x):
    return x


def same_value(a, b):
    """structural equality of value trees (written out so that symbolic comparisons fork per leaf)"""
    if isinstance(a, dict):
        if not isinstance(b, dict) or set(a) != set(b):
            return False
        for k in a:
            if not same_value(a[k], b[k]):
                return False
        return True
    if isinstance(a, (list, tuple)):
        if not isinstance(b, (list, tuple)) or len(a) != len(b):
            return False
        for x, y in zip(a, b):
            if not same_value(x, y):
                return False
        return True
    if a is None or b is None:
        return a is None and b is None
    return a == b


def count_elements(v):
    """total number of array elements in a value tree"""
    if isinstance(v, dict):
        return sum(count_elements(x) for x in v.values())
    if isinstance(v, tuple):
        return count_elements(v[1])
    if isinstance(v, list):
        return len(v) + sum(count_elements(x) for x in v)
    return 0


def eq_bytes(got, want):
    if len(got) != len(want):
        return False
    for x, y in zip(got, want):
        if x != y:
            return False
    return True


# ---------------------------------------------------------------- the checks (C01, C02, C19-py, C06)

def value_of(t, lens, args):
    return make_value(t, Feed(lens, args))


def check_encode(cls, t, lens, args, be):
    """C01: real encode == reference encode, byte for byte"""
    v = value_of(t, lens, args)
    e = '>' if be else '<'
    msg = cls()
    fill(msg, t, v)
    got = msg.encode(e)
    want = W.encode(t, v, e)
    return eq_bytes(got, want)


def check_roundtrip(cls, t, lens, args, be):
    """C02: decode(encode(m)) consumes everything, gives the same fields, re-encodes to the same bytes"""
    v = value_of(t, lens, args)
    e = '>' if be else '<'
    msg = cls()
    fill(msg, t, v)
    data = msg.encode(e)
    fresh = cls()
    n = fresh.decode(data, e)
    if n != len(data):
        return False
    if not same_value(observe(fresh, t), observe(msg, t)):
        return False
    if not same_value(observe(fresh, t), v):
        return False
    return eq_bytes(fresh.encode(e), data)


def check_endian(cls, t, lens, args):
    """C19 (python): '<' and '>' encodings: same length, scalars mirrored in place, padding zero in both.
    Applied on paths where the little-endian layout equals the reference layout (layout defects belong to C01)."""
    v = value_of(t, lens, args)
    msg = cls()
    fill(msg, t, v)
    le = msg.encode('<')
    be = msg.encode('>')
    if len(le) != len(be):
        return False
    bm = []
    ref = W.encode(t, v, '<', bmap=bm)
    if len(le) != len(ref):
        return True          # layout differs from the reference: C01's business, not asserted here
    # the scalar positions of the reference are used only if at least one of the two encodings has its scalars exactly
    # there (if the property holds, either both do or neither does); otherwise it is a layout matter (C01)
    le_ok = True
    for i, m in enumerate(bm):
        if m is not None and le[i] != ref[i]:
            le_ok = False
            break
    if not le_ok:
        ref_be = W.encode(t, v, '>')
        for i, m in enumerate(bm):
            if m is not None and be[i] != ref_be[i]:
                return True
    for i, m in enumerate(bm):
        if m is None:
            if le[i] != 0 or be[i] != 0:
                return False
        else:
            _, k, w, _ = m
            if be[i] != le[i - k + (w - 1 - k)]:
                return False
    return True


def check_count_guard(cls, k, bs, be):
    """C06 (element counts are bounded): the k-th array counter of the message type, decoded from arbitrary bytes,
    is either refused with ProphyError or lies in [0, 65536] - whatever follows in the input"""
    import prophy
    sizers = [d.type for d in cls._descriptor if d.type.__name__ == 'container_len']
    t = sizers[k]
    data = symbytes(bs)
    try:
        v, size = t._decode(data, 0, '>' if be else '<')
    except prophy.ProphyError:
        return True
    return 0 <= v <= 65536 and size == len(bs)


def check_count_accept(cls, k, n, be):
    """C02 at the array counter: every element count n <= 65536 - shift that the counter type can hold is written by the
    real counter field (container_len._encode) and read back as n by container_len._decode, consuming exactly the counter.
    (The value checks carry arrays of <= 2 elements; this is the same round trip for the counter alone, n symbolic.)"""
    sizers = [d.type for d in cls._descriptor if d.type.__name__ == 'container_len']
    t = sizers[k]
    e = '>' if be else '<'
    data = t._encode(n, e)
    v, size = t._decode(data, 0, e)
    return v == n and size == len(data)


def check_decode_total(cls, t, bs, be, twin=False, greedy=False):
    """C06: decode of arbitrary bytes returns or raises ProphyError; accepted input -> encodes, and is a fixpoint;
    element counts bounded by the input length"""
    import prophy
    e = '>' if be else '<'
    data = symbytes(bs)
    msg = cls()
    try:
        msg.decode(data, e)
    except prophy.ProphyError:
        return True
    if twin:
        return False             # reachability twin: "decode never succeeds" must be refuted
    v = observe(msg, t)
    if count_elements(v) > len(bs):
        return False
    out = msg.encode(e)
    again = cls()
    k = again.decode(out, e)
    if k != len(out):
        return False
    if not eq_bytes(again.encode(e), out):
        return False
    if greedy:
        return True          # documented exception: trailing padding of a greedy tail is indistinguishable from elements
    return same_value(observe(again, t), v)


# ---------------------------------------------------------------- structural fingerprints of failures (concrete re-run)

def _tcat(f):
    if f.bytes:
        return 'bytes'
    t = strip(f.type)
    if isinstance(t, Scalar):
        return ('float%d' if t.flt else 'int%d') % t.size
    if isinstance(t, Enum):
        return 'enum'
    if isinstance(t, Union):
        return 'union(align%d)' % W.type_layout(t)[1]
    st = W.type_layout(t)
    return 'struct(%s,align%d)' % (['fixed', 'dynamic', 'unlimited'][st[2]], st[1])


def _fdesc(t, name):
    t = strip(t)
    if not isinstance(t, Struct):
        return 'union-arm'
    for f in t.fields:
        if f.name == name:
            form = f.form if isinstance(f.form, str) else f.form[0]
            return '%s:%s' % (form, _tcat(f))
    return '?'


def _first_diff(got, want):
    for i, (x, y) in enumerate(zip(got, want)):
        if x != y:
            return i
    return None


def _innermost_repo_frame(tb):
    import traceback
    fr = [f for f in traceback.extract_tb(tb) if '/prophy/' in f.filename or '/prophyc/' in f.filename]
    if not fr:
        return None
    f = fr[-1]
    return '%s:%s' % (os.path.basename(f.filename), f.name)


def explain_codec(cls, t, profiles, fn, args):
    import prophy
    parts = fn.split('__')
    chk = parts[0]
    sig = dict(check=chk)
    try:
        if chk == 'guard':
            try:
                ok = check_count_guard(cls, int(parts[-1]), list(args[:-1]), args[-1])
            except Exception as ex:
                return dict(sig, kind='count-guard-raises', exc=type(ex).__name__, site=_innermost_repo_frame(ex.__traceback__))
            return dict(sig, kind='count-not-bounded' if not ok else 'passes?')
        if chk == 'cnt':
            try:
                ok = check_count_accept(cls, int(parts[1]), args[0], args[1])
            except Exception as ex:
                return dict(sig, kind='count-roundtrip-raises', exc=type(ex).__name__, site=_innermost_repo_frame(ex.__traceback__))
            return dict(sig, kind='count-roundtrip-differs' if not ok else 'passes?')
        if chk == 'dec':
            be = args[-1]
            bs = list(args[:-1])
            e = '>' if be else '<'
            msg = cls()
            try:
                msg.decode(bytes(bs), e)
            except prophy.ProphyError:
                return dict(sig, kind='rejected?')
            except Exception as ex:
                return dict(sig, kind='foreign-exception', exc=type(ex).__name__, site=_innermost_repo_frame(ex.__traceback__))
            v = observe(msg, t)
            if count_elements(v) > len(bs):
                return dict(sig, kind='element-count-exceeds-input')
            try:
                out = msg.encode(e)
            except Exception as ex:
                return dict(sig, kind='accepted-but-encode-raises', exc=type(ex).__name__, site=_innermost_repo_frame(ex.__traceback__))
            again = cls()
            try:
                k = again.decode(out, e)
            except Exception as ex:
                return dict(sig, kind='accepted-but-redecode-raises', exc=type(ex).__name__, site=_innermost_repo_frame(ex.__traceback__))
            if k != len(out) or again.encode(e) != out:
                return dict(sig, kind='not-a-fixpoint')
            return dict(sig, kind='value-differs-after-redecode')
        lens = profiles[parts[1]]
        if chk == 'end':
            vargs, be = list(args), False
        else:
            vargs, be = list(args[:-1]), args[-1]
        v = value_of(t, lens, vargs)
        e = '>' if be else '<'
        msg = cls()
        try:
            fill(msg, t, v)
            got = list(msg.encode(e))
        except Exception as ex:
            return dict(sig, kind='build-or-encode-raises', exc=type(ex).__name__, site=_innermost_repo_frame(ex.__traceback__))
        bm = []
        want = W.encode(t, v, e, bmap=bm)
        if chk == 'enc':
            i = _first_diff(got, want)
            if i is None:
                if len(got) == len(want):
                    return dict(sig, kind='no-difference?')
                return dict(sig, kind='length', delta=len(got) - len(want), last_field=_fdesc(t, strip(t).fields[-1].name))
            m = bm[i]
            # which top-level field does position i belong to (reference layout)
            j = i
            while j < len(bm) and bm[j] is None:
                j += 1
            owner = bm[j][0].split('.')[1].split('[')[0] if j < len(bm) else strip(t).fields[-1].name
            return dict(sig, kind='byte', role=('pad' if m is None else m[3]), field=_fdesc(t, owner))
        if chk == 'rt':
            fresh = cls()
            try:
                n = fresh.decode(bytes(got), e)
            except Exception as ex:
                return dict(sig, kind='decode-raises', exc=type(ex).__name__, site=_innermost_repo_frame(ex.__traceback__))
            if n != len(got):
                return dict(sig, kind='consumed-length')
            ov = observe(fresh, t)
            if not same_value(ov, v):
                bad = [k for k in v if not same_value(ov.get(k), v[k])] if isinstance(v, dict) else []
                return dict(sig, kind='field-differs', field=_fdesc(t, bad[0]) if bad else '?')
            return dict(sig, kind='re-encode-differs')
        if chk == 'end':
            le = list(msg.encode('<'))
            bb = list(msg.encode('>'))
            if len(le) != len(bb):
                return dict(sig, kind='length')
            for i, m in enumerate(bm):
                if m is None and (le[i] or bb[i]):
                    return dict(sig, kind='nonzero-padding')
                if m is not None and bb[i] != le[i - m[1] + (m[2] - 1 - m[1])]:
                    return dict(sig, kind='not-mirrored', role=m[3])
            return dict(sig, kind='no-difference?')
    except Exception as ex:   # the explanation itself must never mask the replay result
        return dict(sig, kind='explain-failed', exc=type(ex).__name__)
    return sig
