"""E2 harness for the raw C++ codec (--cpp_out): driver generation and the reference view of raw struct layouts
(main struct + partN sub-structs, has_ flags, num_of_ counters), shared by C08 and C09."""
from . import wirespec as W
from . import family as F

CPPT = {'u8': 'uint8_t', 'u16': 'uint16_t', 'u32': 'uint32_t', 'u64': 'uint64_t', 'i8': 'int8_t', 'i16': 'int16_t', 'i32': 'int32_t', 'i64': 'int64_t',
        'r32': 'float', 'r64': 'double'}


def all_types(shapes):
    return [t for t in W.collect_types(shapes) if isinstance(W.strip(t), (W.Struct, W.Union)) and not isinstance(t, W.Typedef)]


def raw_members(t):
    """reference view of one raw struct: list of parts; each part is a list of dict(name, kind, offset (relative to
    the part start), width, ctype, leaf) for every *named* C++ member the generated header must contain
    (kind: scalar | enum | flag | counter | composite | array-first)"""
    t = W.strip(t)
    items = W.struct_items(t)
    parts = [[]]
    for it in items:
        parts[-1].append(it)
        if it['kind'] in ('dynamic', 'ext') or (it['kind'] == 'plain' and it['stiff'] == W.DYNAMIC):
            parts.append([])
    if parts and not parts[-1]:
        parts.pop()
    out = []
    for part in parts:
        off = 0
        ms = []
        for it in part:
            off = W.rup(off, it['align'])
            f = it['f']
            k = it['kind']
            ft = W.SC['u8'] if f.bytes else W.strip(f.type)
            scalarish = isinstance(ft, (W.Scalar, W.Enum))
            ctype = (CPPT[ft.name] if isinstance(ft, W.Scalar) else ('uint32_t' if isinstance(ft, W.Enum) else ft.name))
            width = ft.size if isinstance(ft, W.Scalar) else (4 if isinstance(ft, W.Enum) else None)
            if k == 'counter':
                ms.append(dict(name='num_of_' + f.name, kind='counter', offset=off, width=4, ctype='uint32_t', expr='num_of_' + f.name))
            elif k == 'plain':
                ms.append(dict(name=f.name, kind='scalar' if scalarish else 'composite', offset=off, width=width, ctype=ctype, expr=f.name))
            elif k == 'optional':
                ms.append(dict(name='has_' + f.name, kind='flag', offset=off, width=4, ctype='uint32_t', expr='has_' + f.name))
                ms.append(dict(name=f.name, kind='scalar' if scalarish else 'composite', offset=off + it['align'], width=width, ctype=ctype, expr=f.name))
            else:
                ms.append(dict(name=f.name, kind='array-first' if scalarish else 'composite', offset=off, width=width, ctype=ctype, expr=f.name + '[0]', is_array=True))
            off += it['size']
        out.append(ms)
    return out


def part_alignments(t):
    """alignment of the main struct block and of every partN (greatest alignment of the block's items)"""
    t = W.strip(t)
    items = W.struct_items(t)
    parts = [[]]
    for it in items:
        parts[-1].append(it)
        if it['kind'] in ('dynamic', 'ext') or (it['kind'] == 'plain' and it['stiff'] == W.DYNAMIC):
            parts.append([])
    if parts and not parts[-1]:
        parts.pop()
    return [max(it['align'] for it in p) for p in parts]


def swap_fingerprint(t):
    """structural class of a swap end-pointer mismatch: does a later part have a smaller alignment than the part before it?"""
    ts = W.strip(t)
    last = ts.fields[-1]
    if last.form == 'greedy' or (last.form == 'plain' and not last.bytes and W.type_layout(last.type)[2] == W.UNLIMITED):
        items, _ = W.offsets(ts)
        if items[-1][1] % W.type_layout(ts)[1] != 0:
            return 'unlimited tail member at an offset that is not a multiple of the struct alignment'
    al = part_alignments(t)
    for k in range(1, len(al) - 1):
        if al[k] > al[k + 1]:
            return 'a partN sub-struct is followed by a part with a smaller alignment'
    return 'other'


def union_members(t):
    t = W.strip(t)
    sz, al, _ = W.type_layout(t)
    ms = [dict(name='discriminator', kind='disc', offset=0, width=4, ctype='uint32_t', expr='discriminator')]
    for d, n, at in t.arms:
        at = W.strip(at)
        scalarish = isinstance(at, (W.Scalar, W.Enum))
        ms.append(dict(name=n, kind='scalar' if scalarish else 'composite', offset=al, width=(at.size if isinstance(at, W.Scalar) else 4) if scalarish else None,
                       ctype=(CPPT[at.name] if isinstance(at, W.Scalar) else ('uint32_t' if isinstance(at, W.Enum) else at.name)), expr=n))
    return ms


def part_type(tname, k):
    return tname if k == 0 else '%s::part%d' % (tname, k + 1)


def raw_driver(stem, shapes, raw=True):
    """extern "C" entry points over the generated raw header: swap, sizeof/offsetof constants, scalar accessors"""
    out = ['#include "%s.pp.cpp"\n#include <cstddef>\nextern "C" {\n' % stem]
    for s in shapes:
        out.append('void* swap_%s(%s* p) { return prophy::swap(p); }\n' % (s.name, s.name))
    for t in all_types(shapes):
        n = t.name
        out.append('size_t rsize_%s() { return sizeof(%s); }\n' % (n, n))
        out.append('size_t ralign_%s() { return __alignof__(%s); }\n' % (n, n))
        if isinstance(t, W.Union):
            groups = [union_members(t)]
        else:
            groups = raw_members(t)
        for k, ms in enumerate(groups):
            pt = part_type(n, k)
            tag = '%s__p%d' % (n, k)
            if k > 0:
                out.append('size_t rsize_%s() { return sizeof(%s); }\n' % (tag, pt))
            for m in ms:
                out.append('size_t roff_%s__%s() { return offsetof(%s, %s); }\n' % (tag, m['name'], pt, m['name']))
                if m['kind'] in ('scalar', 'flag', 'counter', 'disc', 'array-first') and not (m['ctype'] in ('float', 'double')):
                    cast = '(%s)' % m['ctype']
                    out.append('%s rget_%s__%s(const %s* p) { return %sp->%s; }\n' % (m['ctype'], tag, m['name'], pt, cast, m['expr']))
                    if m['kind'] == 'disc':
                        out.append('void rset_%s__%s(%s* p, %s v) { p->%s = (%s::_discriminator)v; }\n' % (tag, m['name'], pt, m['ctype'], m['expr'], n))
                    elif isinstance(W.strip(t), W.Struct) and m['kind'] != 'disc':
                        out.append('void rset_%s__%s(%s* p, %s v) { *(%s*)&p->%s = v; }\n' % (tag, m['name'], pt, m['ctype'], m['ctype'], m['expr']))
                    else:
                        out.append('void rset_%s__%s(%s* p, %s v) { *(%s*)&p->%s = v; }\n' % (tag, m['name'], pt, m['ctype'], m['ctype'], m['expr']))
    out.append('}\n')
    return ''.join(out)
