"""C19 - byte order changes only the bytes inside scalars; padding always zero.
Python codec: E1 (CrossHair) on encode('<') vs encode('>') of one symbolic message.
C++ full codec: E2 (llsym) on encode<little> / encode<big> / encode<native> of one object decoded from the reference."""
import os
import time

from . import common as C
from . import wirespec as W
from . import family as F
from . import codec_e1 as X1
from . import cppharness as X
from . import p_c03

BOUNDS = dict(family='F (vf/family.py); C++ part: C++-eligible F', array_lengths='{0,1,2}', values='all integer values, presence, arm symbolic (C++: presence/arm per query)',
              outside='python: floats symbolic; paths where the little-endian image differs from the reference are C01 business and not asserted here')


def confirm_cpp(chunk, shape, e, viol, _L):
    hx = viol.get('input_hex')
    if not hx:
        return None, 'no witness'
    r = X.native_decode(chunk, shape, 'le', bytes.fromhex(hx))
    if r.get('error') or 'le' not in r:
        return None, 'native: %s' % (r.get('error') or r.get('stdout', '')[:120])
    d = viol['_desc']
    fam = dict((s.name, s) for s in chunk['shapes'])
    t = fam[shape]
    src = X.Z3Source(d['lengths'], d['presence'], d['arms'])
    v = X.make_value_z3(t, src)
    bm = []
    W.encode(t, v, '<', ops=X.Z3Ops, bmap=bm)
    le, be, na = bytes.fromhex(r['le']), bytes.fromhex(r['be']), bytes.fromhex(r['na'])
    bad = len(le) != len(be) or len(le) != len(na) or na != le or len(le) != len(bm)
    if not bad:
        for i, m in enumerate(bm):
            if m is None:
                bad = bad or le[i] != 0 or be[i] != 0
            else:
                bad = bad or be[i] != le[i - m[1] + (m[2] - 1 - m[1])]
    return bad, 'native: le=%s be=%s na=%s' % (r['le'][:48], r['be'][:48], r['na'][:48])


def run(tier):
    t0 = time.time()
    obs, conds, fam, _ = X1.run_value_checks('C19', tier, ['end'])
    for o in obs:
        o.oid = 'python/' + o.oid
    errors = []
    if not os.environ.get('VF_ONLY') or 'cpp' in os.environ.get('VF_ONLY', ''):
        work = C.workdir('C19-cpp')
        ftier = 'quick' if tier == 'quick' else 'thorough'
        shapes = [s for s in F.family(ftier) if F.cpp_full_eligible(s)]
        chunks = X.prepare(work, shapes, chunk=8)
        errors = [c['error'] for c in chunks if c['error']]
        tasks = p_c03.build_tasks(chunks, tier, ftier, query='q_byteorder', ends=('all',), cap=4 if tier == 'quick' else 16, tag='cpp-byteorder')
        results = X.run_tasks(tasks)
        for r in results:
            for v in r.get('violations', []):
                v['_desc'] = r['desc']
        obs += X.to_obligations('C19', results, chunks, 'cpp-byteorder', confirm=confirm_cpp)
    return C.finish('C19', tier, obs, t0, functions=X1.FUNCS_ENC + ['message_impl<X>::encode<little|big|native> (IR)', 'encode_int specialisations', 'message<X>::decode<little> (to build the object)'],
                    bounds=BOUNDS,
                    assumptions=['byte map taken from vf/wirespec.py', 'engine patches 1-6', 'C++: output buffers zero-initialised as message::encode<E>() does; native == little on this host'],
                    extra=dict(shapes=len(fam['shapes']), signature_rule=X1.explain_note(), build_errors=errors[:5]), errors=errors[:3])
