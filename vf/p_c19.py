"""C19 - byte order changes only the bytes inside scalars; padding always zero (E1 python part; E2 part added when llsym lands)."""
import time
from . import common as C
from . import codec_e1 as X

BOUNDS = dict(family='F (vf/family.py)', array_lengths='{0,1,2}', values='all integer values, presence, arm symbolic',
              outside='floats symbolic; paths where the little-endian layout differs from the reference are C01 business and not asserted here')


def run(tier):
    t0 = time.time()
    obs, conds, fam, _ = X.run_value_checks('C19', tier, ['end'])
    return C.finish('C19', tier, obs, t0, functions=X.FUNCS_ENC, bounds=BOUNDS,
                    assumptions=['byte map taken from vf/wirespec.py', 'engine patches 1-6'],
                    extra=dict(shapes=len(fam['shapes']), signature_rule=X.explain_note()))
