"""C16 - multi-file schemas with includes equal their single-file concatenation (E1, model level + FileProcessor over a
stub file system)."""
import os
import time

from . import common as C
from .chrun import Cond, run_conditions, to_obligations, concrete_reach

HEAD = '''# generated harness module (E1, includes)
from vf import pyharness as H, frontharness as FH, compharness as K
H.setup(formatting_stub=False, int_str=True)


def explain(fn, args, kwargs):
    exc = None
    try:
        globals()[fn](*args)
    except Exception as e:   # noqa
        exc = type(e).__name__
    return dict(check=fn.split('__')[0], kind=('exception:' + exc) if exc else 'assertion')

'''


def run(tier):
    t0 = time.time()
    work = C.workdir('C16')
    path = os.path.join(work, 'includes.py')
    body = [HEAD]
    conds = []
    body.append('def place__0(in_c: bool, in_e: bool, in_s: bool, n: int, em: int, name_sel: int) -> bool:\n    """\n    pre: 1 <= n <= 300 and 1 <= em <= 300 and 0 <= name_sel <= 3\n    post: _\n    """\n'
                '    return FH.include_placement(in_c, in_e, in_s, n, em, name_sel)\n\n')
    conds.append(Cond(path, 'place__0', 'include-placement', dict(check='layouts equal the flat file', symbolic='which of 3 declarations live in the included file; constant and enumerator values; base name of the included file (neutral or equal to a name it defines)'),
                      sample_args=[True, True, True, 3, 2, 1]))
    body.append('def path__0(in_own: bool, in_i1: bool, in_i2: bool, nested: bool) -> bool:\n    """\n    post: _\n    """\n    return K.path_resolution(in_own, in_i1, in_i2, nested)\n\n')
    conds.append(Cond(path, 'path__0', 'path-resolution', dict(check='first existing candidate in the documented order; directory stack restored', symbolic='which of 3 directories contain the leaf; depth of the including file'),
                      sample_args=[False, True, True, False]))
    inc = ['i%d' % k for k in range(9)]
    body.append('def incl__3(%s, ex1: bool, ex2: bool, d1: bool, d2: bool) -> bool:\n    """\n    post: _\n    """\n'
                '    return K.includes_resolve([%s], ex1, ex2, d1, d2)\n\n' % (', '.join('%s: bool' % x for x in inc), ', '.join(inc)))
    conds.append(Cond(path, 'incl__3', 'include-matrix/3-files', dict(check='each file processed once; missing and cyclic includes reported, never dropped', symbolic='9 include bits, existence and directory of 2 files'),
                      sample_args=[False, True, False, False, False, True, False, False, False, True, True, False, True]))
    with open(path, 'w') as f:
        f.write(''.join(body))
    conds = C.only(conds)
    raw = run_conditions(conds, 240 if tier == 'quick' else 1200)
    obs, _ = to_obligations('C16', conds, raw)
    concrete_reach(conds, obs)
    return C.finish('C16', tier, obs, t0,
                    functions=['prophyc.model._make_types_index / _collect_constants / cross_reference / evaluate_sizes on Include nodes', 'prophyc.file_processor.FileProcessor (push_dir, swap_dir, cache, cycle marker)',
                               'prophyc.parsers.prophy.Parser.p_include_def'],
                    bounds=dict(declarations='4 (constant, enum, struct, struct using all of them), diamond inclusion', files='3 files, 3 directories', values='constant / enumerator in 1..300',
                                outside='real directories and working-directory changes of a real process; generated-file equivalence at the text level (covered through layout equality only)'),
                    assumptions=['file system replaced by an in-memory table', 'processing an included file = evaluate_model on its declarations (what ModelParser does)'])
