"""Layer A (DESIGN 1, C04): the real layout code of prophyc's model and of the Python runtime metaclasses executed on
member types whose size and alignment are *symbolic*, against the documented layout rules (wirespec.abstract_*).

A member descriptor is (form, kind, n): form in plain/optional/fixed/limited/dynamic/greedy, kind = stiffness of the
member's type (0 fixed, 1 dynamic, 2 unlimited), n = array extent where the form has one.
Symbolic per member: q (size = q * alignment, so the type invariant "size is a multiple of alignment" holds by
construction) and k (alignment = 2**k, k in 0..3).
"""
from . import wirespec as W
from .wirespec import FIXED, DYNAMIC, UNLIMITED


def _pick(values, i):
    for k, v in enumerate(values[:-1]):
        if i == k:
            return v
    return values[-1]


def _types(desc, qs, ks):
    out = []
    for i in range(len(desc)):
        a = _pick([1, 2, 4, 8], ks[i])
        out.append((qs[i] * a, a))
    return out


def _ref_members(desc, types):
    return [dict(form=f, size=types[i][0], align=types[i][1], kind=kd, n=n) for i, (f, kd, n) in enumerate(desc)]


# ------------------------------------------------------------------ prophyc model

def _model_stub(i, size, align, kind):
    from prophyc import model
    n = model.Struct('T%d' % i, [model.StructMember('x', 'u8')])
    n.byte_size = size
    n.alignment = align
    n.kind = kind
    return n


def model_struct(desc, qs, ks):
    """C04 (a),(c),(d): model size / alignment / kind / paddings == documented layout"""
    from prophyc import model
    types = _types(desc, qs, ks)
    members = []
    for i, (form, kind, n) in enumerate(desc):
        inner = _model_stub(i, types[i][0], types[i][1], kind)
        name, tn = 'f%d' % i, 'T%d' % i
        if form == 'plain':
            members.append(model.StructMember(name, tn, definition=inner))
        elif form == 'optional':
            members.append(model.StructMember(name, tn, definition=inner, optional=True))
        elif form == 'fixed':
            m = model.StructMember(name, tn, definition=inner, size=str(n))
            m.numeric_size = n
            members.append(m)
        elif form == 'dynamic':
            members.append(model.StructMember('num_of_' + name, 'u32'))
            members.append(model.StructMember(name, tn, definition=inner, bound='num_of_' + name))
        elif form == 'limited':
            members.append(model.StructMember('num_of_' + name, 'u32'))
            m = model.StructMember(name, tn, definition=inner, bound='num_of_' + name, size=str(n))
            m.numeric_size = n
            members.append(m)
        elif form == 'greedy':
            members.append(model.StructMember(name, tn, definition=inner, greedy=True))
    outer = model.Struct('Outer', members)
    model.evaluate_stiffness_kinds([outer])
    model.evaluate_sizes([outer])
    ref = W.abstract_struct_layout(_ref_members(desc, types))
    if outer.alignment != ref['align']:
        return False
    if outer.kind != ref['kind']:
        return False
    if outer.byte_size % outer.alignment != 0:
        return False
    if ref['kind'] == FIXED:
        if outer.byte_size != ref['size']:
            return False
        items, offs = ref['items'], ref['offsets']
        if len(items) != len(members):
            return False
        for j, m in enumerate(members):
            nxt = offs[j + 1] if j + 1 < len(offs) else ref['size']
            if m.padding != nxt - (offs[j] + items[j]['size']):
                return False
    return True


def model_union(narms, qs, ks):
    from prophyc import model
    types = _types([None] * narms, qs, ks)
    arms = []
    for i in range(narms):
        inner = _model_stub(i, types[i][0], types[i][1], FIXED)
        arms.append(model.UnionMember('a%d' % i, 'T%d' % i, str(i + 1), definition=inner))
    u = model.Union('U', arms)
    model.evaluate_sizes([u])
    ref = W.abstract_union_layout([dict(size=s, align=a) for s, a in types])
    return u.byte_size == ref['size'] and u.alignment == ref['align'] and u.kind == FIXED and u.byte_size % u.alignment == 0


# ------------------------------------------------------------------ Python runtime metaclasses

def _rt_stub(size, align, kind):
    class T(int):
        _is_prophy_object = True
        _SIZE = size
        _ALIGNMENT = align
        _DYNAMIC = kind != FIXED
        _UNLIMITED = kind == UNLIMITED
        _OPTIONAL = False
        _BOUND = None
        _PARTIAL_ALIGNMENT = None
        _DEFAULT = 0
    return T


def runtime_struct(desc, qs, ks):
    """C04 (b): _SIZE / _ALIGNMENT / _DYNAMIC / _UNLIMITED computed by the real metaclass == documented layout"""
    import prophy
    types = _types(desc, qs, ks)
    d = []
    for i, (form, kind, n) in enumerate(desc):
        t = _rt_stub(types[i][0], types[i][1], kind)
        name = 'f%d' % i
        if form == 'plain':
            d.append((name, t))
        elif form == 'optional':
            d.append((name, prophy.optional(t)))
        elif form == 'fixed':
            d.append((name, prophy.array(t, size=n)))
        elif form == 'dynamic':
            d.append(('num_of_' + name, prophy.u32))
            d.append((name, prophy.array(t, bound='num_of_' + name)))
        elif form == 'limited':
            d.append(('num_of_' + name, prophy.u32))
            d.append((name, prophy.array(t, bound='num_of_' + name, size=n)))
        elif form == 'greedy':
            d.append((name, prophy.array(t)))
    s = prophy.struct_generator('S', (prophy.struct,), {'_descriptor': d})
    ref = W.abstract_struct_layout(_ref_members(desc, types))
    if s._ALIGNMENT != ref['align']:
        return False
    if bool(s._DYNAMIC) != (ref['kind'] != FIXED) or bool(s._UNLIMITED) != (ref['kind'] == UNLIMITED):
        return False
    if ref['kind'] == FIXED and s._SIZE != ref['size']:
        return False
    return True


def runtime_union(narms, qs, ks):
    import prophy
    types = _types([None] * narms, qs, ks)
    d = [('a%d' % i, _rt_stub(types[i][0], types[i][1], FIXED), i + 1) for i in range(narms)]
    u = prophy.union_generator('U', (prophy.union,), {'_descriptor': d})
    ref = W.abstract_union_layout([dict(size=s, align=a) for s, a in types])
    return u._SIZE == ref['size'] and u._ALIGNMENT == ref['align'] and not u._DYNAMIC and not u._UNLIMITED


# ------------------------------------------------------------------ descriptor enumeration

NONLAST = [('plain', FIXED, 0), ('plain', DYNAMIC, 0), ('optional', FIXED, 0), ('fixed', FIXED, 2), ('fixed', FIXED, 3),
           ('limited', FIXED, 2), ('dynamic', FIXED, 0), ('dynamic', DYNAMIC, 0)]
LASTONLY = [('plain', UNLIMITED, 0), ('greedy', FIXED, 0)]


def descriptors(n):
    import itertools
    out = []
    for pre in itertools.product(NONLAST, repeat=n - 1):
        for last in NONLAST + LASTONLY:
            out.append(list(pre) + [last])
    return out
