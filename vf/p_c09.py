"""C09 - raw C++ swap converts a whole foreign-endian message to native in place (E2: IR of prophy::swap<X>)."""
import os
import re
import time

from . import common as C
from . import wirespec as W
from . import family as F
from . import cppharness as X
from . import rawharness as R
from . import p_c03

REPLAY9 = r'''
#include "%(stem)s.pp.cpp"
#include <cstdio>
#include <cstdlib>
#include <cstring>
#include <string>
#include <vector>
static std::vector<uint8_t> unhex(const char* h) { std::vector<uint8_t> v; size_t n = strlen(h) / 2; for (size_t i = 0; i < n; i++) { unsigned x; sscanf(h + 2 * i, "%%2x", &x); v.push_back((uint8_t)x); } return v; }
template <class T> int run(const char* hex)
{
    std::vector<uint8_t> in = unhex(hex);
    const size_t G = 16;
    uint8_t* raw = (uint8_t*)aligned_alloc(16, ((in.size() + 2 * G + 15) / 16) * 16);
    memset(raw, 0xA5, in.size() + 2 * G);
    memcpy(raw + G, in.data(), in.size());
    T* end = prophy::swap(reinterpret_cast<T*>(raw + G));
    printf("end=%%ld out=", (long)((uint8_t*)end - (raw + G)));
    for (size_t i = 0; i < in.size(); i++) printf("%%02x", raw[G + i]);
    size_t bad = 0; for (size_t i = 0; i < G; i++) { if (raw[i] != 0xA5) bad++; if (raw[G + in.size() + i] != 0xA5) bad++; }
    printf(" guard_changed=%%zu\n", bad);
    free(raw);
    return 0;
}
int main(int argc, char** argv)
{
    if (argc < 3) return 2;
    std::string t = argv[1];
%(dispatch)s
    return 3;
}
'''


def build_replay9(chunk):
    d, stem = chunk['dir'], chunk['stem']
    exe = os.path.join(d, 'replay9')
    if os.path.exists(exe):
        return exe, None
    disp = ''.join('    if (t == "%s") return run<%s>(argv[2]);\n' % (s.name, s.name) for s in chunk['shapes'])
    with open(os.path.join(d, 'replay9.cpp'), 'w') as f:
        f.write(REPLAY9 % dict(stem=stem, dispatch=disp))
    rc, out, err = C.sh(['g++', '-std=c++11', '-O0', '-g', '-fsanitize=address,undefined', '-fno-omit-frame-pointer', '-I', X.INC, '-I', d,
                         os.path.join(d, 'replay9.cpp'), '-o', exe], timeout=900)
    if rc != 0:
        return None, (err or out)[-1500:]
    return exe, None


def confirm(chunk, shape, e, viol, _L):
    exe, err = build_replay9(chunk)
    if exe is None:
        return None, 'replay9 build failed: ' + err
    hx = viol.get('input_hex')
    if hx is None:
        return None, 'no witness'
    rc, out, err = C.sh([exe, shape, hx], timeout=120, env={'ASAN_OPTIONS': 'detect_leaks=0:abort_on_error=0', 'UBSAN_OPTIONS': 'print_stacktrace=0'})
    txt = 'native: rc=%s %s %s' % (rc, out.strip()[:200], (err or '').strip().splitlines()[1:2])
    if 'AddressSanitizer' in (err or ''):
        return True, txt
    m = re.search(r'end=(-?\d+) out=([0-9a-f]*) guard_changed=(\d+)', out)
    if not m:
        return None, txt
    end, outhex, gc = int(m.group(1)), m.group(2), int(m.group(3))
    if viol['cls'] == 'swap-end':
        fam = dict((s.name, s) for s in chunk['shapes'])
        viol['fingerprint'] = R.swap_fingerprint(fam[shape])
        return end != viol['expected_end'], txt
    if viol['cls'] == 'swap-image':
        n = viol['claim_len']
        return gc > 0 or outhex[:2 * n] != viol['want_hex'][:2 * n], txt
    return gc > 0, txt


def run(tier):
    t0 = time.time()
    work = C.workdir('C09')
    W.self_check()
    ftier = 'quick' if tier == 'quick' else 'thorough'
    shapes = [s for s in F.family(ftier) if not F.has_float(s) or True]
    chunks = X.prepare(work, shapes, chunk=8, raw=True, driver=R.raw_driver)
    errors = [c['error'] for c in chunks if c['error']]
    tasks = p_c03.build_tasks(chunks, tier, ftier, query='q_swap', ends=('be',), cap=6 if tier == 'quick' else 30, tag='swap')
    results = X.run_tasks(tasks)
    obs = X.to_obligations('C09', results, chunks, 'swap', confirm=confirm)
    return C.finish('C09', tier, obs, t0,
                    functions=['prophy::swap<X>(X*) (generated)', 'generated part swaps', 'prophy::detail::swap_n_fixed / swap_n_dynamic', 'prophy::cast<> / detail::align_ptr',
                               'scalar swap overloads (prophy.hpp)', 'union swap (generated)'],
                    bounds=dict(family='F (%d shapes)' % len(shapes), lengths='{0,1,2} per array (counts are concrete per query: they are read back from the buffer)',
                                values='all scalar / enum leaves symbolic; 2 x 16 symbolic guard bytes around the message',
                                greedy='claim restricted to the members before the outermost unlimited member, whose address must be returned'),
                    assumptions=['foreign order = big endian on this little-endian host', 'IR from clang++-14 -O1 -fno-exceptions of <schema>.pp.cpp', 'native replay (ASan) before reporting'],
                    extra=dict(build_errors=errors[:5]), errors=errors[:3])
