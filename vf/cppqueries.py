"""llsym queries (run inside worker processes).  Each returns a list of result dicts:
   oid, verdict (discharged|violated|inconclusive|error), detail, paths, queries, solver_s, desc,
   violations: [dict(cls, kind, site, input_hex, ...)]  (the parent replays them natively before anything is reported)"""
import time
import z3

from . import llsym as L
from . import wirespec as W
from . import family as F
from . import cppharness as X


_FAM = {}


def _shape(task):
    if task['family'] not in _FAM:
        _FAM[task['family']] = dict((s.name, s) for s in F.family(task['family']))
    return _FAM[task['family']][task['shape']]


def _mk(task, max_visits):
    mod = X.load_ir(task['ll'])
    ex = L.Exec(mod, max_visits=max_visits, timeout_s=task.get('timeout', 120))
    return mod, ex


def _result(task, ex, verdict, detail='', violations=None, nontrivial=False, extra=None):
    r = dict(oid=task['oid'], verdict=verdict, detail=detail, paths=ex.stats['paths'], queries=ex.stats['queries'],
             solver_s=round(ex.stats['solver_s'], 3), instrs=ex.stats['instrs'], desc=task.get('desc', {}),
             violations=violations or [], nontrivial=nontrivial, chunk=task.get('chunk'))
    if extra:
        r.update(extra)
    return r


def _viol(v, data, cls=None, **kw):
    d = dict(cls=cls or v.cls, kind=v.kind, site=X.short_site(v.where), where=v.where[-160:])
    if v.model is not None and data is not None:
        d['input_hex'] = ''.join('%02x' % b for b in L.model_bytes(v.model, data))
    d.update(kw)
    return d


def _new_message(mod, ex, name):
    ty = X.struct_type(mod, name)
    x = ex.new_obj(L.size_of(ty), 'message')
    st = L.State()
    r = ex.run('@ctor_' + name, [ex.ptr(x)], st)
    if len(r) != 1 or r[0][2] is not None:
        raise L.Unsupported('constructor did not run on a single clean path')
    return x, r[0][0]


# ------------------------------------------------------------------------------------------------ C07

def q_decode_total(task):
    """all L input bytes symbolic: memory safety, no abort, proportional allocation, exactness, re-encode length"""
    name, e, Lb = task['shape'], task['e'], task['L']
    mod, ex = _mk(task, max_visits=Lb + 6)
    ex.alloc_limit = task['alloc_limit']
    viols = []
    try:
        x, st = _new_message(mod, ex, name)
        buf = ex.new_obj(Lb, 'input[%d]' % Lb, writable=False)
        data = [z3.BitVec('in%d' % i, 8) for i in range(Lb)]
        for i, b in enumerate(data):
            st.cmem[buf.base + i] = b
        res = ex.run('@dec_%s_%s' % (name, e), [ex.ptr(x), ex.ptr(buf), L.Val(z3.BitVecVal(Lb, 64))], st)
        accepted = 0
        for st2, rv, v in res:
            for ev in st2.events:
                if ev[0] == 'ALLOC-DISPROPORTIONATE':
                    viols.append(dict(cls='alloc', kind='allocation request out of proportion: ' + ev[1], site=X.short_site(ev[2]), where=ev[2][-160:],
                                      input_hex=''.join('%02x' % b for b in L.model_bytes(ev[3], data)), limit=ex.alloc_limit))
            if v is not None:
                viols.append(_viol(v, data))
                continue
            ok = z3.simplify(rv.e == 1)
            if z3.is_false(ok):
                continue
            m = ex.check(st2, ok)
            if m is None:
                continue
            accepted += 1
            st2.pc.append(ok)
            # accepted input: get_byte_size() == L and encode writes exactly L bytes into a buffer of L bytes
            for st3, g, v3 in ex.run('@gbs_' + name, [ex.ptr(x)], st2.clone()):
                if v3 is not None:
                    viols.append(_viol(v3, data))
                    continue
                m2 = ex.check(st3, g.e != Lb)
                if m2 is not None:
                    viols.append(dict(cls='exact', kind='accepted input of %d bytes but get_byte_size() differs' % Lb, site='get_byte_size',
                                      input_hex=''.join('%02x' % b for b in L.model_bytes(m2, data))))
            out = ex.new_obj(Lb, 'output[%d]' % Lb)
            for st3, w, v3 in ex.run('@enc_%s_%s' % (name, e), [ex.ptr(x), ex.ptr(out)], st2.clone()):
                if v3 is not None:
                    viols.append(_viol(v3, data, cls='reencode'))
                    continue
                m2 = ex.check(st3, w.e != Lb)
                if m2 is not None:
                    viols.append(dict(cls='exact', kind='accepted input of %d bytes re-encodes to a different length' % Lb, site='encode',
                                      input_hex=''.join('%02x' % b for b in L.model_bytes(m2, data))))
        ub = [dict(what=u['what'], site=X.short_site(u['where']), input_hex=''.join('%02x' % b for b in L.model_bytes(u['model'], data)))
              for u in ex.ub_sites.values()]
    except L.Unsupported as u:
        if viols:
            return [_result(task, ex, 'violated', 'then inconclusive: %s' % u, viols)]
        return [_result(task, ex, 'inconclusive', str(u)[:300])]
    if viols:
        return [_result(task, ex, 'violated', viols[0]['kind'], viols, extra=dict(ub_pointer=ub))]
    return [_result(task, ex, 'discharged', nontrivial=accepted > 0, extra=dict(accepted_paths=accepted, ub_pointer=ub))]


# ------------------------------------------------------------------------------------------------ C03 / C19-cpp

def _reference(task, e):
    shape = _shape(task)
    src = X.Z3Source(task['lens'], task['pres'], task['arms'])
    v = X.make_value_z3(shape, src)
    bm = []
    ref = W.encode(shape, v, '<' if e != 'be' else '>', ops=X.Z3Ops, bmap=bm)
    return shape, src, v, ref, bm


def q_roundtrip(task):
    """decode the reference bytes (symbolic scalar leaves) -> success, consumed all; encode -> identical bytes; get_byte_size == length"""
    name, e = task['shape'], task['e']
    shape, src, v, ref, bm = _reference(task, e)
    Lb = len(ref)
    mod, ex = _mk(task, max_visits=12)
    viols = []
    leaves = list(src.vars)
    try:
        x, st = _new_message(mod, ex, name)
        st.pc.extend(src.constraints)
        buf = ex.new_obj(Lb, 'input[%d]' % Lb, writable=False)
        for i, b in enumerate(ref):
            st.cmem[buf.base + i] = b
        res = ex.run('@dec_%s_%s' % (name, e), [ex.ptr(x), ex.ptr(buf), L.Val(z3.BitVecVal(Lb, 64))], st)
        okpaths = 0
        for st2, rv, v2 in res:
            if v2 is not None:
                viols.append(_viol(v2, ref, cls='decode-' + v2.cls))
                continue
            m = ex.check(st2, rv.e != 1)
            if m is not None:
                viols.append(dict(cls='compat', kind='C++ decode rejects the canonical encoding', site='decode', input_hex=''.join('%02x' % b for b in L.model_bytes(m, ref))))
                if ex.check(st2, rv.e == 1) is None:
                    continue
            st2.pc.append(rv.e == 1)
            okpaths += 1
            for st3, g, v3 in ex.run('@gbs_' + name, [ex.ptr(x)], st2.clone()):
                if v3 is not None:
                    viols.append(_viol(v3, ref, cls='gbs-' + v3.cls))
                    continue
                m2 = ex.check(st3, g.e != Lb)
                if m2 is not None:
                    viols.append(dict(cls='size', kind='get_byte_size() != length of the canonical encoding (%d)' % Lb, site='get_byte_size',
                                      input_hex=''.join('%02x' % b for b in L.model_bytes(m2, ref)), got=str(m2.eval(g.e))))
            out = ex.new_obj(Lb, 'output[%d]' % Lb)
            st_e = st2.clone()
            for i in range(Lb):
                st_e.cmem[out.base + i] = z3.BitVecVal(0, 8)          # zero-initialised, as the vector API does
            for st3, w, v3 in ex.run('@enc_%s_%s' % (name, e), [ex.ptr(x), ex.ptr(out)], st_e):
                if v3 is not None:
                    viols.append(_viol(v3, ref, cls='encode-' + v3.cls))
                    continue
                m2 = ex.check(st3, w.e != Lb)
                if m2 is not None:
                    viols.append(dict(cls='size', kind='encode() returns a length different from the canonical encoding (%d)' % Lb, site='encode',
                                      input_hex=''.join('%02x' % b for b in L.model_bytes(m2, ref)), got=str(m2.eval(w.e))))
                    continue
                diff = [ex.read8(st3, z3.BitVecVal(out.base + i, 64)) != ref[i] for i in range(Lb)]
                if diff:
                    m2 = ex.check(st3, z3.Or(*diff))
                    if m2 is not None:
                        got = [m2.eval(ex.read8(st3, z3.BitVecVal(out.base + i, 64)), model_completion=True).as_long() for i in range(Lb)]
                        viols.append(dict(cls='compat', kind='re-encoded bytes differ from the canonical encoding', site='encode',
                                          input_hex=''.join('%02x' % b for b in L.model_bytes(m2, ref)), got_hex=''.join('%02x' % b for b in got)))
    except L.Unsupported as u:
        if viols:
            return [_result(task, ex, 'violated', 'then inconclusive: %s' % u, viols)]
        return [_result(task, ex, 'inconclusive', str(u)[:300])]
    if viols:
        return [_result(task, ex, 'violated', viols[0]['kind'], viols)]
    return [_result(task, ex, 'discharged', nontrivial=okpaths > 0, extra=dict(length=Lb))]


def q_engine_validation(task):
    """validation of the IR executor itself (not a property obligation): the entry points are run with ALL inputs
    concrete (reference bytes of a sample value) and the result is compared by the parent with the natively compiled
    code on the same bytes.  Any difference is a machinery error (exit 2), never a violation."""
    import random
    name, e = task['shape'], task['e']
    shape, src, v, ref, bm = _reference(task, e)
    rnd = random.Random(task.get('seed', 0) * 7919 + len(ref))
    model = {}
    for var in src.vars:
        model[var] = rnd.getrandbits(var.size())
    # enum leaves must be declared enumerators: re-draw until the constraints hold (they are tiny disjunctions)
    s = z3.Solver()
    s.add(*src.constraints)
    for var in src.vars:
        s.push()
        s.add(var == model[var])
        if s.check() != z3.sat:
            s.pop()
        else:
            s.pop()
            s.add(var == model[var])
    assert s.check() == z3.sat
    m = s.model()
    data = [m.eval(b, model_completion=True).as_long() for b in ref]
    Lb = len(data)
    mod, ex = _mk(task, max_visits=64)
    try:
        x, st = _new_message(mod, ex, name)
        buf = ex.new_obj(Lb, 'input', writable=False)
        for i, b in enumerate(data):
            st.cmem[buf.base + i] = z3.BitVecVal(b, 8)
        res = ex.run('@dec_%s_%s' % (name, e), [ex.ptr(x), ex.ptr(buf), L.Val(z3.BitVecVal(Lb, 64))], st)
        if len(res) != 1 or res[0][2] is not None:
            return [_result(task, ex, 'error', 'concrete run forked or faulted: %s' % (res[0][2].kind if res and res[0][2] else len(res)), extra=dict(input_hex=bytes(data).hex()))]
        st2, rv, _ = res[0]
        ok = z3.simplify(rv.e).as_long()
        out_hex, gbs, w = None, None, None
        if ok:
            g = ex.run('@gbs_' + name, [ex.ptr(x)], st2.clone())
            gbs = z3.simplify(g[0][1].e).as_long()
            out = ex.new_obj(gbs + 8, 'output')
            st_e = st2.clone()
            for i in range(gbs + 8):
                st_e.cmem[out.base + i] = z3.BitVecVal(0xAA, 8)
            r3 = ex.run('@enc_%s_%s' % (name, e), [ex.ptr(x), ex.ptr(out)], st_e)
            w = z3.simplify(r3[0][1].e).as_long()
            out_hex = ''.join('%02x' % z3.simplify(ex.read8(r3[0][0], z3.BitVecVal(out.base + i, 64))).as_long() for i in range(w))
    except L.Unsupported as u:
        return [_result(task, ex, 'inconclusive', str(u)[:300])]
    return [_result(task, ex, 'discharged', nontrivial=True, extra=dict(engine_validation=dict(input_hex=bytes(data).hex(), ok=ok, gbs=gbs, written=w, out=out_hex)))]


def q_byteorder(task):
    """C19 (C++): encode<little>, encode<big>, encode<native> of one object (decoded from the little-endian reference):
    same length, scalars mirrored in place, padding zero, native == little on this host"""
    name = task['shape']
    shape, src, v, ref, bm = _reference(task, 'le')
    Lb = len(ref)
    mod, ex = _mk(task, max_visits=12)
    viols = []
    try:
        x, st = _new_message(mod, ex, name)
        st.pc.extend(src.constraints)
        buf = ex.new_obj(Lb, 'input[%d]' % Lb, writable=False)
        for i, b in enumerate(ref):
            st.cmem[buf.base + i] = b
        res = ex.run('@dec_%s_le' % name, [ex.ptr(x), ex.ptr(buf), L.Val(z3.BitVecVal(Lb, 64))], st)
        n_ok = 0
        for st2, rv, v2 in res:
            if v2 is not None or ex.check(st2, rv.e == 1) is None:
                continue                                         # decoding problems are C03/C07 business
            st2.pc.append(rv.e == 1)
            outs = {}
            for e in ('le', 'be', 'na'):
                out = ex.new_obj(Lb, 'output-%s[%d]' % (e, Lb))
                st_e = st2.clone()
                for i in range(Lb):
                    st_e.cmem[out.base + i] = z3.BitVecVal(0, 8)
                r3 = ex.run('@enc_%s_%s' % (name, e), [ex.ptr(x), ex.ptr(out)], st_e)
                if len(r3) != 1 or r3[0][2] is not None:
                    outs = None
                    break
                st3, w, _ = r3[0]
                if ex.check(st3, w.e != Lb) is not None:
                    viols.append(dict(cls='byteorder', kind='encode<%s> length differs from encode<little> length' % e, site='encode', input_hex=''))
                    outs = None
                    break
                outs[e] = [ex.read8(st3, z3.BitVecVal(out.base + i, 64)) for i in range(Lb)]
            if not outs:
                continue
            n_ok += 1
            conds = []
            for i, m in enumerate(bm):
                if m is None:
                    conds.append(outs['le'][i] != 0)
                    conds.append(outs['be'][i] != 0)
                else:
                    _, k, w_, _ = m
                    conds.append(outs['be'][i] != outs['le'][i - k + (w_ - 1 - k)])
                conds.append(outs['na'][i] != outs['le'][i])
            m2 = ex.check(st2, z3.Or(*conds)) if conds else None
            if m2 is not None:
                le = [m2.eval(t, model_completion=True).as_long() for t in outs['le']]
                be = [m2.eval(t, model_completion=True).as_long() for t in outs['be']]
                viols.append(dict(cls='byteorder', kind='big/little/native encodings are not mirror images with zero padding', site='encode',
                                  input_hex=''.join('%02x' % b for b in L.model_bytes(m2, ref)), le_hex=''.join('%02x' % b for b in le), be_hex=''.join('%02x' % b for b in be)))
    except L.Unsupported as u:
        if viols:
            return [_result(task, ex, 'violated', 'then inconclusive: %s' % u, viols)]
        return [_result(task, ex, 'inconclusive', str(u)[:300])]
    if viols:
        return [_result(task, ex, 'violated', viols[0]['kind'], viols)]
    return [_result(task, ex, 'discharged', nontrivial=n_ok > 0, extra=dict(length=Lb))]


# ------------------------------------------------------------------------------------------------ C05

class ObjSource(object):
    """structure choices for an arbitrary C++ message object: concrete lengths / presence / arms, fresh scalar bits"""

    def __init__(self, lens, pres, arms):
        self.lens, self.pres, self.arms = list(lens), list(pres), list(arms)
        self.li = self.pi = self.ai = 0
        self.constraints = []
        self.n = 0

    def length(self, choices):
        if self.li >= len(self.lens):
            raise X.H.NeedLength(choices)
        v = self.lens[self.li]
        self.li += 1
        return v

    def bool(self):
        if self.pi >= len(self.pres):
            raise X.NeedChoice('pres', 2)
        v = self.pres[self.pi]
        self.pi += 1
        return bool(v)

    def choice(self, k):
        if self.ai >= len(self.arms):
            raise X.NeedChoice('arm', k)
        v = self.arms[self.ai]
        self.ai += 1
        return v

    def fresh(self, bits):
        self.n += 1
        return z3.BitVec('f%d' % self.n, bits)


def obj_len_choices(f):
    form = f.form
    if form[0] == 'limited':
        n = form[1]
        return tuple(sorted(set((0, 1, n, n + 1))))          # n + 1: filled beyond the limit through the vector API
    return (0, 1, 2, 3)


def _const_fn(ex, name):
    r = ex.run(name, [], L.State())
    v = z3.simplify(r[0][1].e)
    if len(r) != 1 or not z3.is_bv_value(v):
        raise L.Unsupported('not a constant function: ' + name)
    return v.as_long()


def _members(ex, irty, tname, names):
    """(offset, IR type) of the named C++ members: offsets come from the compiled offsetof() functions, the IR element
    is the one the struct layout places at that offset"""
    t = L.res(irty)
    offs = L.struct_layout(t)[0]
    out = []
    for m in names:
        off = _const_fn(ex, '@off_%s__%s' % (tname, m))
        cand = [e for o, e in zip(offs, t.elems) if o == off and L.size_of(e) > 0]
        if not cand:
            raise L.Unsupported('no IR element at offset %d of %s (member %s)' % (off, tname, m))
        out.append((off, cand[0]))
    return out


def _write_bits(ex, st, addr, e):
    n = e.size() // 8
    for i in range(n):
        ex.write8(st, z3.BitVecVal(addr + i, 64), z3.simplify(z3.Extract(8 * i + 7, 8 * i, e)))


def _vector_ptr_type(irty):
    """element pointer type of a libstdc++ vector IR type: vector -> _Vector_base -> _Vector_impl -> _Vector_impl_data {T*, T*, T*}"""
    t = L.res(irty)
    while isinstance(t, L.StructTy) and not isinstance(L.res(t.elems[0]), L.PtrTy):
        t = L.res(t.elems[0])
    return L.res(t.elems[0]).to


def havoc(ex, st, irty, ast_t, addr, src, build=True):
    """write an arbitrary value of AST type ast_t (IR type irty) at concrete address addr; with build=False only the
    structure choices are consumed (used to enumerate profiles)"""
    ast_t = W.strip(ast_t)
    if isinstance(ast_t, W.Scalar):
        v = None
        if build:
            v = src.fresh(8 * ast_t.size)
            _write_bits(ex, st, addr, v)
        return v
    if isinstance(ast_t, W.Enum):
        v = None
        if build:
            v = src.fresh(32)
            src.constraints.append(z3.Or(*[v == (m[1] & 0xFFFFFFFF) for m in ast_t.members]))
            _write_bits(ex, st, addr, v)
        return v
    if isinstance(ast_t, W.Union):
        d = src.choice(len(ast_t.arms))
        mem = _members(ex, irty, ast_t.name, ['discriminator'] + [a[1] for a in ast_t.arms]) if build else None
        if build:
            if len(mem) != len(ast_t.arms) + 1:
                raise L.Unsupported('union layout does not match the schema: %r' % ast_t)
            _write_bits(ex, st, addr + mem[0][0], z3.BitVecVal(ast_t.arms[d][0] & 0xFFFFFFFF, 32))
        arm_t = ast_t.arms[d][2]
        if build:
            off, ety = mem[d + 1]
            sub = havoc(ex, st, ety, arm_t, addr + off, src)
        else:
            sub = havoc(ex, st, None, arm_t, 0, src, build=False)
        return (ast_t.arms[d][1], sub)
    out = {}
    sizers = W.sizer_names(ast_t)
    fields = [f for f in ast_t.fields if f.name not in sizers]
    mem = _members(ex, irty, ast_t.name, [f.name for f in fields]) if build else [(0, None)] * len(fields)
    if len(mem) != len(fields):
        raise L.Unsupported('struct layout does not match the schema: %r has %d IR members, %d fields' % (ast_t, len(mem), len(fields)))
    ext_len = {}
    for f, (off, ety) in zip(fields, mem):
        a = addr + off
        form = f.form
        et = W.SC['u8'] if f.bytes else f.type
        if form == 'plain':
            out[f.name] = havoc(ex, st, ety, et, a, src, build)
        elif form == 'optional':
            p = src.bool()
            out[f.name] = None
            if build:
                ot = L.res(ety)
                while isinstance(ot, L.StructTy) and len(ot.elems) == 1:
                    ot = L.res(ot.elems[0])
                offs = L.struct_layout(ot)[0]
                ex.write8(st, z3.BitVecVal(a + offs[0], 64), z3.BitVecVal(1 if p else 0, 8))
                if p:
                    # storage is a union wrapper around the value type
                    stt = ot.elems[1]
                    out[f.name] = havoc_storage(ex, st, stt, et, a + offs[1], src)
            elif p:
                havoc(ex, st, None, et, 0, src, build=False)
        elif form[0] == 'fixed':
            out[f.name] = []
            if build:
                at = L.res(ety)
                while isinstance(at, L.StructTy) and len(at.elems) == 1:
                    at = L.res(at.elems[0])
                if not isinstance(at, L.ArrTy):
                    raise L.Unsupported('fixed array layout')
                es = L.size_of(at.el)
            for k in range(form[1]):
                out[f.name].append(havoc(ex, st, at.el if build else None, et, (a + k * es) if build else 0, src, build))
        else:
            out[f.name] = []
            if form[0] == 'ext':
                if form[1] not in ext_len:
                    ext_len[form[1]] = src.length(obj_len_choices(f))
                n = ext_len[form[1]]
            else:
                n = src.length(obj_len_choices(f))
            if build:
                elt = _vector_ptr_type(ety)
                es = L.size_of(elt)
                if n == 0:
                    for k in range(3):
                        _write_bits(ex, st, a + 8 * k, z3.BitVecVal(0, 64))
                        st.ptrshadow[a + 8 * k] = None
                else:
                    o = ex.new_obj(n * es, 'vector storage %s[%d]' % (f.name, n), heap=True)
                    for k, p_ in enumerate((o.base, o.base + n * es, o.base + n * es)):
                        _write_bits(ex, st, a + 8 * k, z3.BitVecVal(p_, 64))
                        st.ptrshadow[a + 8 * k] = o.oid
                    for k in range(n):
                        out[f.name].append(havoc(ex, st, elt, et, o.base + k * es, src))
            else:
                for k in range(n):
                    havoc(ex, st, None, et, 0, src, build=False)
    return out


def havoc_storage(ex, st, stt, et, addr, src):
    """optional's aligned_storage: a union/struct wrapper whose first byte is the value"""
    et_ = W.strip(et)
    if isinstance(et_, (W.Scalar, W.Enum)):
        return havoc(ex, st, None, et_, addr, src)
    # composite value: its IR type is not reachable through the storage wrapper, look it up by name
    return havoc(ex, st, ex.mod.types['%"struct.prophy::generated::' + et_.name + '"'], et_, addr, src)


def object_profiles(t, cap=None):
    done = []
    stack = [([], [], [])]
    while stack:
        lens, pres, arms = stack.pop()
        try:
            havoc(None, None, None, t, 0, ObjSource(lens, pres, arms), build=False)
            done.append((tuple(lens), tuple(pres), tuple(arms)))
        except X.H.NeedLength as e:
            for c in reversed(e.choices):
                stack.append((lens + [c], pres, arms))
        except X.NeedChoice as e:
            for c in reversed(range(e.k)):
                if e.kind == 'pres':
                    stack.append((lens, pres + [c], arms))
                else:
                    stack.append((lens, pres, arms + [c]))
    done.sort()
    if cap and len(done) > cap:
        step = (len(done) - 1) / float(cap - 1)
        pick = sorted(set(int(round(i * step)) for i in range(cap)))
        done = [done[i] for i in pick]
    return done


def q_size_agreement(task):
    """C05: arbitrary message object (structure per query, scalars symbolic): get_byte_size() == bytes written by the
    pointer encode, which stays inside a buffer of exactly get_byte_size() bytes; == encoded_byte_size for fixed types"""
    name = task['shape']
    shape = _shape(task)
    mod, ex = _mk(task, max_visits=16)
    viols = []
    try:
        ty = X.struct_type(mod, name)
        x = ex.new_obj(L.size_of(ty), 'message')
        st = L.State()
        src = ObjSource(task['lens'], task['pres'], task['arms'])
        val = havoc(ex, st, ty, shape, x.base, src)
        st.pc.extend(src.constraints)
        r = ex.run('@gbs_' + name, [ex.ptr(x)], st.clone())
        if len(r) != 1 or r[0][2] is not None:
            if r and r[0][2] is not None:
                viols.append(_viol(r[0][2], None, cls='gbs-' + r[0][2].cls))
                return [_result(task, ex, 'violated', viols[0]['kind'], viols)]
            raise L.Unsupported('get_byte_size did not run on a single path')
        g = z3.simplify(r[0][1].e)
        if not z3.is_bv_value(g):
            raise L.Unsupported('get_byte_size is not a constant for concrete structure: %s' % str(g)[:80])
        gv = g.as_long()
        ebs = ex.run('@ebs_' + name, [], L.State())[0][1]
        ebsv = z3.simplify(ebs.e).as_signed_long()
        if ebsv >= 0 and ebsv != gv:
            viols.append(dict(cls='size', kind='fixed type: get_byte_size() %d != encoded_byte_size %d' % (gv, ebsv), site='get_byte_size', gbs=gv, ebs=ebsv))
        for e in task['ends']:
            out = ex.new_obj(gv, 'output[get_byte_size()=%d]' % gv)
            st_e = st.clone()
            ref = None
            if task.get('canonical'):
                for i in range(gv):
                    st_e.cmem[out.base + i] = z3.BitVecVal(0, 8)      # zero-initialised like message::encode<E>()'s vector
                ref = W.encode(shape, val, '>' if e == 'be' else '<', ops=X.Z3Ops)
                if len(ref) != gv:
                    viols.append(dict(cls='compat', kind='get_byte_size() is %d, the canonical encoding of this value has %d bytes' % (gv, len(ref)), site='get_byte_size',
                                      gbs=gv, canonical=len(ref), endianness=e))
                    ref = None
            for st3, w, v3 in ex.run('@enc_%s_%s' % (name, e), [ex.ptr(x), ex.ptr(out)], st_e):
                if v3 is not None:
                    viols.append(_viol(v3, None, cls='encode-' + v3.cls, gbs=gv, endianness=e))
                    continue
                m2 = ex.check(st3, w.e != gv)
                if m2 is not None:
                    viols.append(dict(cls='size', kind='encode<%s> returns %s but get_byte_size() is %d' % (e, m2.eval(w.e), gv), site='encode', gbs=gv,
                                      written=str(m2.eval(w.e)), endianness=e))
                    continue
                if ref is not None:
                    diff = [ex.read8(st3, z3.BitVecVal(out.base + i, 64)) != ref[i] for i in range(gv)]
                    m2 = ex.check(st3, z3.Or(*diff)) if diff else None
                    if m2 is not None:
                        got = [m2.eval(ex.read8(st3, z3.BitVecVal(out.base + i, 64)), model_completion=True).as_long() for i in range(gv)]
                        viols.append(dict(cls='compat', kind='encode<%s> of the object differs from the canonical encoding of its value' % e, site='encode',
                                          got_hex=''.join('%02x' % b for b in got), want_hex=''.join('%02x' % b for b in L.model_bytes(m2, ref)), endianness=e))
    except L.Unsupported as u:
        if viols:
            return [_result(task, ex, 'violated', 'then inconclusive: %s' % u, viols)]
        return [_result(task, ex, 'inconclusive', str(u)[:300])]
    if viols:
        return [_result(task, ex, 'violated', viols[0]['kind'], viols)]
    return [_result(task, ex, 'discharged', nontrivial=True, extra=dict(gbs=gv))]


# ------------------------------------------------------------------------------------------------ C09 raw swap

def q_swap(task):
    """prophy::swap<X> on the big-endian reference bytes (symbolic scalar leaves) between two guard regions: the image
    becomes the little-endian (native) reference, guards untouched, returned pointer = aligned end (greedy tail: the
    address of the unlimited member, members before it native)"""
    name = task['shape']
    shape = _shape(task)
    src = X.Z3Source(task['lens'], task['pres'], task['arms'])
    v = X.make_value_z3(shape, src)
    be = W.encode(shape, v, '>', ops=X.Z3Ops)
    le = W.encode(shape, v, '<', ops=X.Z3Ops)
    Lb = len(be)
    G = 16
    mod, ex = _mk(task, max_visits=12)
    viols = []
    try:
        st = L.State()
        st.pc.extend(src.constraints)
        obj = ex.new_obj(G + Lb + G, 'guard|message[%d]|guard' % Lb)
        guards = [z3.BitVec('g%d' % i, 8) for i in range(2 * G)]
        for i in range(G):
            st.cmem[obj.base + i] = guards[i]
            st.cmem[obj.base + G + Lb + i] = guards[G + i]
        for i, b in enumerate(be):
            st.cmem[obj.base + G + i] = b
        # expected end: for a greedy tail, the address of the outermost unlimited member
        items, total = W.offsets(shape, v, ops=X.Z3Ops)
        claim_len = Lb
        last = W.strip(shape).fields[-1]
        unlimited = last.form == 'greedy' or (last.form == 'plain' and not last.bytes and W.type_layout(last.type)[2] == W.UNLIMITED)
        if unlimited:
            claim_len = items[-1][1]
        res = ex.run('@swap_' + name, [ex.ptr(obj, G)], st)
        for st2, rv, v2 in res:
            if v2 is not None:
                viols.append(_viol(v2, be, cls='swap-' + v2.cls))
                continue
            want_end = obj.base + G + claim_len
            m = ex.check(st2, rv.e != want_end)
            if m is not None:
                viols.append(dict(cls='swap-end', kind='swap returns %s, expected message start + %d' % (hex(m.eval(rv.e).as_long() - obj.base - G), claim_len), site='swap',
                                  input_hex=''.join('%02x' % b for b in L.model_bytes(m, be)), expected_end=claim_len))
            conds = []
            for i in range(claim_len):
                conds.append(ex.read8(st2, z3.BitVecVal(obj.base + G + i, 64)) != le[i])
            for i in range(G):
                conds.append(ex.read8(st2, z3.BitVecVal(obj.base + i, 64)) != guards[i])
                conds.append(ex.read8(st2, z3.BitVecVal(obj.base + G + Lb + i, 64)) != guards[G + i])
            m = ex.check(st2, z3.Or(*conds)) if conds else None
            if m is not None:
                got = [m.eval(ex.read8(st2, z3.BitVecVal(obj.base + G + i, 64)), model_completion=True).as_long() for i in range(Lb)]
                viols.append(dict(cls='swap-image', kind='swapped image differs from the native encoding (or a guard byte changed)', site='swap',
                                  input_hex=''.join('%02x' % b for b in L.model_bytes(m, be)), got_hex=''.join('%02x' % b for b in got),
                                  want_hex=''.join('%02x' % b for b in L.model_bytes(m, le)), claim_len=claim_len))
    except L.Unsupported as u:
        if viols:
            return [_result(task, ex, 'violated', 'then inconclusive: %s' % u, viols)]
        return [_result(task, ex, 'inconclusive', str(u)[:300])]
    if viols:
        return [_result(task, ex, 'violated', viols[0]['kind'], viols)]
    return [_result(task, ex, 'discharged', nontrivial=True, extra=dict(length=Lb))]


# ------------------------------------------------------------------------------------------------ C08 raw layout

def q_raw_layout(task):
    """one struct / union type of the generated raw header: sizeof and offsetof constants equal the wire layout, and
    every scalar member accessor, overlaid on symbolic bytes, reads / writes exactly the bytes the wire format assigns"""
    from . import rawharness as R
    tname = task['type']
    t = [x for x in R.all_types([_shape(task)]) if x.name == tname][0]
    mod, ex = _mk(task, max_visits=8)
    viols = []
    try:
        sz, al, stiff = W.type_layout(t)
        rs = _const_fn(ex, '@rsize_' + tname)
        if (isinstance(t, W.Union) or stiff == W.FIXED) and rs != sz:
            viols.append(dict(cls='layout', kind='sizeof(%s) = %d, wire size %d' % (tname, rs, sz), site='sizeof', type=tname))
        ra = _const_fn(ex, '@ralign_' + tname)
        if ra != al:
            viols.append(dict(cls='layout', kind='alignof(%s) = %d, wire alignment %d' % (tname, ra, al), site='alignof', type=tname))
        groups = [R.union_members(t)] if isinstance(t, W.Union) else R.raw_members(t)
        nacc = 0
        for k, ms in enumerate(groups):
            tag = '%s__p%d' % (tname, k)
            psize = rs if k == 0 else _const_fn(ex, '@rsize_' + tag)
            for m in ms:
                off = _const_fn(ex, '@roff_%s__%s' % (tag, m['name']))
                if off != m['offset']:
                    viols.append(dict(cls='layout', kind='offsetof(%s, %s) = %d, wire offset %d' % (R.part_type(tname, k), m['name'], off, m['offset']),
                                      site='offsetof', type=tname, member=m['name'], part=k))
                    continue
                if m['kind'] not in ('scalar', 'flag', 'counter', 'disc', 'array-first') or m['ctype'] in ('float', 'double'):
                    continue
                w = m['width']
                n = max(psize, off + w)
                obj = ex.new_obj(n, 'overlay %s' % tag)
                st = L.State()
                bs = [z3.BitVec('b%d' % i, 8) for i in range(n)]
                for i, b in enumerate(bs):
                    st.cmem[obj.base + i] = b
                r = ex.run('@rget_%s__%s' % (tag, m['name']), [ex.ptr(obj)], st.clone())
                if len(r) != 1 or r[0][2] is not None:
                    viols.append(dict(cls='layout', kind='accessor of %s faults' % m['name'], site='get', type=tname, member=m['name']))
                    continue
                want = z3.Concat(*reversed(bs[m['offset']:m['offset'] + w])) if w > 1 else bs[m['offset']]
                got = r[0][1].e
                if got.size() != want.size() or ex.check(r[0][0], got != want) is not None:
                    viols.append(dict(cls='layout', kind='reading %s.%s does not yield the %d bytes at wire offset %d' % (tname, m['name'], w, m['offset']),
                                      site='get', type=tname, member=m['name'], part=k))
                val = z3.BitVec('val', 8 * w)
                r = ex.run('@rset_%s__%s' % (tag, m['name']), [ex.ptr(obj), L.Val(val)], st.clone())
                if len(r) != 1 or r[0][2] is not None:
                    viols.append(dict(cls='layout', kind='setter of %s faults' % m['name'], site='set', type=tname, member=m['name']))
                    continue
                conds = []
                for i in range(n):
                    cur = ex.read8(r[0][0], z3.BitVecVal(obj.base + i, 64))
                    if m['offset'] <= i < m['offset'] + w:
                        j = i - m['offset']
                        conds.append(cur != z3.Extract(8 * j + 7, 8 * j, val))
                    else:
                        conds.append(cur != bs[i])
                if ex.check(r[0][0], z3.Or(*conds)) is not None:
                    viols.append(dict(cls='layout', kind='writing %s.%s changes other bytes than the %d bytes at wire offset %d' % (tname, m['name'], w, m['offset']),
                                      site='set', type=tname, member=m['name'], part=k))
                nacc += 1
    except L.Unsupported as u:
        if viols:
            return [_result(task, ex, 'violated', 'then inconclusive: %s' % u, viols)]
        return [_result(task, ex, 'inconclusive', str(u)[:300])]
    if viols:
        return [_result(task, ex, 'violated', viols[0]['kind'], viols)]
    return [_result(task, ex, 'discharged', nontrivial=nacc > 0, extra=dict(accessors=nacc))]
