"""Concrete replay of harness functions (no CrossHair, no engine patches): the real code on concrete values.

usage: python -m vf.chreplay <module.py> <fn> '<json {args, kwargs}>'
       python -m vf.chreplay <module.py> --batch '<json [{fn, args}]>'
ok = function returned a truthy value without raising.
"""
import json
import os
import sys
import traceback

from .chworker import load


def run_one(mod, fn, args, kwargs):
    out = dict(ok=False, value=None, exc=None)
    try:
        v = getattr(mod, fn)(*args, **kwargs)
        out['value'] = repr(v)
        out['ok'] = bool(v)
    except BaseException as e:  # noqa
        out['exc'] = type(e).__name__
        out['value'] = (str(e) or '')[:300]
        out['trace'] = traceback.format_exc()[-1200:]
    if not out['ok'] and hasattr(mod, 'explain'):
        try:
            out['explain'] = mod.explain(fn, args, kwargs)
        except BaseException as e:  # noqa
            out['explain'] = dict(explain_error='%s: %s' % (type(e).__name__, e))
    return out


def main():
    os.environ['VF_SYMBOLIC'] = '0'
    sys.setrecursionlimit(20000)
    path = sys.argv[1]
    mod = load(path)
    if sys.argv[2] == '--batch':
        res = {}
        for item in json.loads(sys.argv[3]):
            res[item.get('key', item['fn'])] = run_one(mod, item['fn'], item['args'], item.get('kwargs', {}))
        print(json.dumps(dict(batch=res)))
    else:
        p = json.loads(sys.argv[3])
        print(json.dumps(dict(replay=run_one(mod, sys.argv[2], p['args'], p.get('kwargs', {})))))


if __name__ == '__main__':
    main()
