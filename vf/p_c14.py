"""C14 - constant expressions denote one integer, the same in every back-end (E1: real ply parser + calc + model
evaluators on concrete expression texts with symbolic named constants, vs our own reference evaluator)."""
import os
import time

from . import common as C
from . import exprharness as X
from .chrun import Cond, run_conditions, to_obligations, concrete_reach

HEAD = '''# generated harness module (E1, constant expressions) -- str(int) is semantic here and kept exact by engine patch 8;
# only the str.format / percent / format() calls of diagnostics are stubbed (error text is not the subject)
from vf import pyharness as H, exprharness as X
H.setup(formatting_stub=True, int_str=True)
X.parser()
TABLE = %(table)r


def explain(fn, args, kwargs):
    return X.explain(fn, lambda: globals()[fn](*args), TABLE)

'''


def table_for(tier):
    exprs = X.shapes(2 if tier == 'quick' else 3, tier)
    tab = []
    for i, e in enumerate(exprs):
        tab.append((e, 'const'))
        if i % 4 == 1:
            tab.append((e, 'enum'))
        if i % 4 == 2:
            tab.append((e, 'size'))
        if i % 4 == 3:
            tab.append((e, 'disc'))
    return tab


def concrete_literals():
    """auxiliary *concrete* side check (not a solver obligation, reported separately): the C++ literal emitted by
    _to_literal and the Python text emitted by translate_constant denote the stored integer, on boundary values"""
    from prophyc.generators import cpp, cpp_full, python as pygen
    from prophyc import model
    bad = []
    vals = [0, 1, -1, 2, 7, 255, 256, 2 ** 31 - 1, 2 ** 31, 2 ** 32 - 1, 2 ** 32, -2 ** 31, 2 ** 63, 2 ** 64 - 1, -2 ** 63]
    for v in vals:
        for mod in (cpp, cpp_full):
            lit = mod._to_literal(str(v))
            back = int(lit[:-1]) if lit.endswith('u') else int(lit)
            if back != v or (lit.endswith('u') and v <= 0):
                bad.append(('%s._to_literal' % mod.__name__, v, lit))
        txt = pygen._PythonTranslator.translate_constant(model.Constant('K', str(v)))
        if int(txt.split('=')[1]) != v:
            bad.append(('python.translate_constant', v, txt))
    return len(vals) * 3, bad


def run(tier):
    t0 = time.time()
    work = C.workdir('C14')
    tab = table_for(tier)
    path = os.path.join(work, 'exprs.py')
    body = [HEAD % dict(table=tab)]
    conds = []
    for idx, (e, pos) in enumerate(tab):
        body.append('def ev__%d(a: int, b: int, c: int) -> bool:\n    """\n    pre: -2**64 <= a <= 2**64 and -2**64 <= b <= 2**64 and -2**64 <= c <= 2**64\n'
                    '    post: _\n    """\n    return X.check_expr(TABLE[%d][0], a, b, c, TABLE[%d][1])\n\n' % (idx, idx, idx))
        conds.append(Cond(path, 'ev__%d' % idx, 'expr/%s/%s' % (pos, e.replace(' ', '')),
                          dict(check='expression value', expression=e, position=pos, symbolic='A, B, C in [-2^64, 2^64]'), sample_args=[40, 7, 3]))
    with open(path, 'w') as f:
        f.write(''.join(body))
    conds = C.only(conds)
    raw = run_conditions(conds, 90 if tier == 'quick' else 600)
    obs, _ = to_obligations('C14', conds, raw)
    concrete_reach(conds, obs)
    from .chrun import boundary_probe
    for c in conds:
        c.extra_samples = [[2 ** 64, 2 ** 53 + 1, 7], [2 ** 63 + 1, 3, 2 ** 64 - 1], [2 ** 53 + 1, 2 ** 62 + 3, 5], [0xFFFFFFFFFFFFFFFF, 0xFF, 1], [-(2 ** 63), -1, -7]]
    boundary_probe('C14', conds, obs)
    n_conc, bad = concrete_literals()
    errors = []
    extra = dict(concrete_side_check=dict(what='C++ _to_literal / Python translate_constant read back on boundary values (enumeration, not solver-decided)',
                                          cases=n_conc, mismatches=[repr(b) for b in bad]))
    if bad:
        from .common import Obligation, VIOLATED
        o = Obligation('literal/concrete-side-check', 'concrete', dict(check='literal read-back', cases=n_conc))
        o.verdict = VIOLATED
        o.replayed = True
        o.signature = dict(check='literal', site=bad[0][0])
        o.detail = 'emitted literal does not denote the stored integer: %r' % (bad[:3],)
        o.replay_path = C.write_replay('C14', 950, dict(property='C14', kind='literal', mismatches=[repr(b) for b in bad]))
        obs.append(o)
    return C.finish('C14', tier, obs, t0,
                    functions=['prophyc.parsers.prophy.Parser.p_expression_* / p_constant_def / p_enum_member / p_positive_expression / p_union_member / p_struct_member_*',
                               'prophyc.calc.Calc (grammar actions, eval)', 'prophyc.model.Constant.eval_int', 'prophyc.model._collect_constants',
                               'prophyc.model.to_int', 'prophyc.model.cross_reference (evaluate_array_sizes)'],
                    bounds=dict(expressions='every operator sequence over + - * / << >> with <= %d binary operators (right operands of * / << >> literal), '
                                            'plus 24 unary-minus / parenthesis / literal-form shapes' % (2 if tier == 'quick' else 3),
                                values='A, B, C symbolic in [-2^64, 2^64]; every dividend subexpression non-negative (paths outside are skipped)',
                                outside='values printed by compiled C++; symbolic second operands of * / << >>; isar expression text; C++/Python literal text for '
                                        'symbolic values (string formatting) - checked concretely on boundary values only'),
                    assumptions=['reference evaluator: vf/exprharness.py (precedence table as declared in the grammar; floor arithmetic)',
                                 'the LALR automaton and the lexer run concretely on each expression text'], extra=extra)
