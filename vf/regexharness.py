"""C13 (never hangs), lexer part: the token regexes of the real lexers (prophyc.parsers.prophy.Parser, prophyc.calc.Calc)
contain no *ambiguous alternation under an unbounded repetition* - the construct that makes a backtracking matcher
exponential on input that fails to match (e.g. an unterminated comment followed by blanks).

The regexes are read from the lexer classes on every run and parsed with the interpreter's own regex parser; for every
unbounded repeat whose body is an alternation of single-character classes a z3 query asks for a character that two
alternatives both accept (one integer variable, ASCII range).  unsat for every pair = unambiguous.  A witness is
replayed on the real compiled regex: matching '<literal prefix>' + witness * 30 must finish within 5 s.
Bound: alternatives that are single character classes, characters 0..127; other shapes of starred alternation are
reported inconclusive, never as success."""
import re
import subprocess
import sys
import time

import z3

try:
    import re._parser as sre_parse
    import re._constants as sre_c
except ImportError:      # pragma: no cover
    import sre_parse
    import sre_constants as sre_c


def token_regexes():
    out = []
    from prophyc.parsers.prophy import Parser
    from prophyc import calc
    for owner, cls in (('prophy.Parser', Parser), ('calc.Calc', getattr(calc, 'Calc', None))):
        if cls is None:
            continue
        for name in sorted(dir(cls)):
            if not name.startswith('t_') or name in ('t_ignore', 't_error'):
                continue
            v = getattr(cls, name)
            if isinstance(v, str):
                out.append(('%s.%s' % (owner, name), v))
            elif callable(v) and getattr(v, '__doc__', None):
                out.append(('%s.%s' % (owner, name), v.__doc__))
    return out


_CATS = {
    'CATEGORY_DIGIT': lambda c: z3.And(c >= 48, c <= 57),
    'CATEGORY_SPACE': lambda c: z3.Or(z3.And(c >= 9, c <= 13), c == 32, z3.And(c >= 28, c <= 31)),
    'CATEGORY_WORD': lambda c: z3.Or(z3.And(c >= 48, c <= 57), z3.And(c >= 65, c <= 90), z3.And(c >= 97, c <= 122), c == 95),
}


def _cat(cat, c):
    n = str(cat)
    neg = n.startswith('CATEGORY_NOT_')
    base = n.replace('CATEGORY_NOT_', 'CATEGORY_')
    if base not in _CATS:
        return None
    f = _CATS[base](c)
    return z3.Not(f) if neg else f


def char_formula(item, c):
    """z3 formula 'character c is accepted by this one-character regex item' or None if the item is not a character class"""
    op, av = item
    n = str(op)
    if n == 'LITERAL':
        return c == av
    if n == 'NOT_LITERAL':
        return c != av
    if n == 'ANY':
        return c != 10                       # PLY compiles with re.VERBOSE only: '.' excludes the newline
    if n == 'CATEGORY':
        return _cat(av, c)
    if n == 'IN':
        neg = False
        parts = []
        for sop, sav in av:
            sn = str(sop)
            if sn == 'NEGATE':
                neg = True
            elif sn == 'LITERAL':
                parts.append(c == sav)
            elif sn == 'RANGE':
                parts.append(z3.And(c >= sav[0], c <= sav[1]))
            elif sn == 'CATEGORY':
                f = _cat(sav, c)
                if f is None:
                    return None
                parts.append(f)
            else:
                return None
        f = z3.Or(*parts) if parts else z3.BoolVal(False)
        return z3.Not(f) if neg else f
    return None


def _alternatives(body):
    """body of a repeat -> list of alternatives (each a list of items) if it is an alternation, else None"""
    items = list(body)
    while len(items) == 1 and str(items[0][0]) == 'SUBPATTERN':
        items = list(items[0][1][3])
    if len(items) == 1 and str(items[0][0]) == 'BRANCH':
        return [list(a) for a in items[0][1][1]]
    return None


def _walk(parsed, prefix, found):
    """collect (literal prefix before the repeat, alternatives) for every unbounded repeat over an alternation"""
    lit = prefix
    for op, av in parsed:
        n = str(op)
        if n in ('MAX_REPEAT', 'MIN_REPEAT', 'POSSESSIVE_REPEAT'):
            lo, hi, body = av
            alts = _alternatives(body)
            if hi == sre_c.MAXREPEAT and alts is not None:
                found.append((lit, alts))
            _walk(body, lit, found)
        elif n == 'SUBPATTERN':
            _walk(av[3], lit, found)
        elif n == 'BRANCH':
            for a in av[1]:
                _walk(a, lit, found)
        if n == 'LITERAL':
            lit = lit + chr(av)
    return found


def analyse(pattern):
    """-> list of dict(verdict, detail, witness) for one regex (one entry per unbounded repeat over an alternation; a
    single 'discharged' entry when there is none)"""
    parsed = sre_parse.parse(pattern, re.VERBOSE)
    found = _walk(parsed, '', [])
    out = []
    queries = 0
    t0 = time.time()
    for lit, alts in found:
        forms = []
        c = z3.Int('c')
        ok = True
        for a in alts:
            if len(a) != 1:
                ok = False
                break
            f = char_formula(a[0], c)
            if f is None:
                ok = False
                break
            forms.append(f)
        if not ok:
            out.append(dict(verdict='inconclusive', detail='starred alternation whose alternatives are not single character classes', prefix=lit))
            continue
        hit = None
        for i in range(len(forms)):
            for j in range(i + 1, len(forms)):
                s = z3.Solver()
                s.add(c >= 0, c <= 127, forms[i], forms[j])
                queries += 1
                r = s.check()
                if str(r) == 'sat':
                    hit = (i, j, s.model()[c].as_long())
                    break
                if str(r) != 'unsat':
                    hit = ('unknown',)
                    break
            if hit:
                break
        if hit is None:
            out.append(dict(verdict='discharged', detail='%d alternatives pairwise disjoint' % len(forms), prefix=lit))
        elif hit[0] == 'unknown':
            out.append(dict(verdict='inconclusive', detail='solver unknown', prefix=lit))
        else:
            out.append(dict(verdict='violated', detail='alternatives %d and %d of a starred alternation both accept chr(%d)' % hit, prefix=lit, witness=hit[2]))
    if not out:
        out.append(dict(verdict='discharged', detail='no unbounded repetition over an alternation', prefix=''))
    for o in out:
        o['queries'] = queries
        o['solver_s'] = round(time.time() - t0, 4)
    return out


def replay(pattern, prefix, witness, n=30, limit=5.0):
    """does the real compiled regex take more than `limit` seconds on prefix + chr(witness) * n (no terminator)?"""
    code = ('import re,sys\nrx=re.compile(%r, re.VERBOSE)\nrx.match(%r)\nprint("done")\n' % (pattern, prefix + chr(witness) * n))
    t0 = time.time()
    try:
        r = subprocess.run([sys.executable, '-c', code], capture_output=True, text=True, timeout=limit)
        return False, 'match finished in %.2fs: %s' % (time.time() - t0, (r.stdout + r.stderr).strip()[-100:])
    except subprocess.TimeoutExpired:
        return True, 'match of %r + chr(%d)*%d did not finish within %.0fs' % (prefix, witness, n, limit)
