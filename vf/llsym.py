"""llsym (engine E2): symbolic execution of clang-14 LLVM IR (textual, -O1) with z3 bit-vectors.

Flat 64-bit memory, one object per allocation (concrete base, concrete or symbolic size), provenance-tagged
pointers, DFS over paths with feasibility queries, bounds check on every load/store, poison tracking for
out-of-bounds `getelementptr inbounds`, unwinding bound per block, leaf stubs for operator new/delete, memset,
memmove/memcpy, bswap, assume, __assert_fail and the libstdc++ __throw_* helpers.  Everything else that is in the
module (generated codec, prophy headers, libstdc++ vector code) is executed.

Anything outside this vocabulary raises Unsupported: the query is then *inconclusive*, never a success.
"""
import os
import re
import time
import z3

_FAULT = os.environ.get('VF_LLSYM_FAULT', '')
# sample of the 'unsat' answers of the current task, kept as SMT-LIB2 text for the cross-check with other solvers
XCHECK = dict(max=0, stride=1, seen=0, log=[])

class Unsupported(Exception):
    pass


# ----------------------------------------------------------------------------- types
class Ty(object):
    pass


class IntTy(Ty):
    def __init__(s, bits):
        s.bits = bits

    def __repr__(s):
        return 'i%d' % s.bits


class FpTy(Ty):
    def __init__(s, bits):
        s.bits = bits

    def __repr__(s):
        return 'f%d' % s.bits


class VoidTy(Ty):
    def __repr__(s):
        return 'void'


class PtrTy(Ty):
    def __init__(s, to):
        s.to = to

    def __repr__(s):
        return '%r*' % (s.to,)


class ArrTy(Ty):
    def __init__(s, n, el):
        s.n, s.el = n, el

    def __repr__(s):
        return '[%d x %r]' % (s.n, s.el)


class StructTy(Ty):
    def __init__(s, elems, packed, name=None):
        s.elems, s.packed, s.name = elems, packed, name

    def __repr__(s):
        return s.name or ('<{..}>' if s.packed else '{..}')


class NamedTy(Ty):
    def __init__(s, name, mod):
        s.name, s.mod = name, mod

    def resolve(s):
        return s.mod.types[s.name]

    def __repr__(s):
        return s.name


class FnTy(Ty):
    def __init__(s, ret, args):
        s.ret, s.args = ret, args


class OpaqueTy(Ty):
    pass


class MetaTy(Ty):
    pass


def res(t):
    while isinstance(t, NamedTy):
        t = t.resolve()
    return t


def align_of(t):
    t = res(t)
    if isinstance(t, IntTy):
        return max(1, min(8, (t.bits + 7) // 8))
    if isinstance(t, FpTy):
        return t.bits // 8
    if isinstance(t, PtrTy):
        return 8
    if isinstance(t, ArrTy):
        return align_of(t.el)
    if isinstance(t, StructTy):
        if t.packed:
            return 1
        return max([align_of(e) for e in t.elems] or [1])
    raise Unsupported('align_of %r' % t)


def size_of(t):
    t = res(t)
    if isinstance(t, IntTy):
        return (t.bits + 7) // 8
    if isinstance(t, FpTy):
        return t.bits // 8
    if isinstance(t, PtrTy):
        return 8
    if isinstance(t, ArrTy):
        return t.n * size_of(t.el)
    if isinstance(t, StructTy):
        return struct_layout(t)[1]
    raise Unsupported('size_of %r' % t)


def struct_layout(t):
    off = 0
    offs = []
    for e in t.elems:
        if not t.packed:
            a = align_of(e)
            off = (off + a - 1) // a * a
        offs.append(off)
        off += size_of(e)
    if not t.packed:
        a = align_of(t)
        off = (off + a - 1) // a * a
    return offs, off


# ----------------------------------------------------------------------------- lexer / parser
TOK = re.compile(r'''\s*(?:
    (?P<str>c?"(?:[^"\\]|\\.)*")|
    (?P<id>[%@][-a-zA-Z$._0-9]+|[%@]"(?:[^"\\]|\\.)*")|
    (?P<meta>![-a-zA-Z$._0-9]*)|
    (?P<attr>\#\d+)|
    (?P<num>-?\d+(?:\.\d+(?:e[+-]?\d+)?)?|0x[0-9A-Fa-f]+)|
    (?P<word>[a-zA-Z_][a-zA-Z_0-9.]*)|
    (?P<dots>\.\.\.)|
    (?P<p>[=,()\[\]{}<>*:])
)''', re.X)


def lex(s):
    out = []
    i = 0
    while i < len(s):
        if s[i] == ';':
            break
        m = TOK.match(s, i)
        if not m or m.end() == i:
            if s[i:].strip() == '':
                break
            raise Unsupported('lex error at %r' % s[i:i + 40])
        i = m.end()
        out.append(m.group(m.lastgroup))
    return out


class P(object):
    def __init__(s, toks, mod):
        s.t, s.i, s.mod = toks, 0, mod

    def peek(s, k=0):
        return s.t[s.i + k] if s.i + k < len(s.t) else None

    def next(s):
        v = s.t[s.i]
        s.i += 1
        return v

    def accept(s, v):
        if s.peek() == v:
            s.i += 1
            return True
        return False

    def expect(s, v):
        x = s.next()
        if x != v:
            raise Unsupported('expected %r got %r in %r' % (v, x, ' '.join(s.t)[:200]))

    def type(s):
        tok = s.next()
        if tok == 'void':
            t = VoidTy()
        elif tok == 'float':
            t = FpTy(32)
        elif tok == 'double':
            t = FpTy(64)
        elif tok == 'opaque':
            t = OpaqueTy()
        elif tok == 'metadata':
            t = MetaTy()
        elif re.match(r'i\d+$', tok):
            t = IntTy(int(tok[1:]))
        elif tok[0] == '%':
            t = NamedTy(tok, s.mod)
        elif tok == '[':
            n = int(s.next())
            s.expect('x')
            el = s.type()
            s.expect(']')
            t = ArrTy(n, el)
        elif tok == '{':
            t = StructTy(s.type_list('}'), False)
        elif tok == '<':
            if s.peek() == '{':
                s.next()
                t = StructTy(s.type_list('}'), True)
                s.expect('>')
            else:
                n = int(s.next())
                s.expect('x')
                el = s.type()
                s.expect('>')
                t = ArrTy(n, el)   # vector type: any operation on it is unsupported
                t.is_vector = True
        else:
            raise Unsupported('type? %r in %r' % (tok, ' '.join(s.t)[:200]))
        while True:
            if s.accept('*'):
                t = PtrTy(t)
            elif s.peek() == '(':
                s.next()
                args = []
                while not s.accept(')'):
                    if s.accept('...'):
                        continue
                    args.append(s.type())
                    s.skip_attrs()
                    s.accept(',')
                t = FnTy(t, args)
            else:
                break
        return t

    def type_list(s, close):
        out = []
        while not s.accept(close):
            out.append(s.type())
            s.accept(',')
        return out

    ATTRS = {'noundef', 'nonnull', 'zeroext', 'signext', 'nocapture', 'readonly', 'readnone', 'writeonly', 'noalias',
             'returned', 'immarg', 'inreg', 'nofree', 'nest', 'swiftself', 'nonnull'}

    def skip_attrs(s):
        while True:
            p = s.peek()
            if p in s.ATTRS:
                s.next()
            elif p in ('align', 'dereferenceable', 'dereferenceable_or_null'):
                s.next()
                if s.accept('('):
                    s.next()
                    s.expect(')')
                else:
                    s.next()
            elif p in ('sret', 'byval'):
                s.next()
                s.expect('(')
                s.type()
                s.expect(')')
            else:
                break

    def value(s, ty):
        """-> ('local', name) | ('int', n) | ('undef',) | ('global', name) | ('agg', [(ty, value)...]) | ('cgep', ...)"""
        tok = s.next()
        if tok[0] == '%':
            return ('local', tok)
        if tok[0] == '@':
            return ('global', tok)
        if tok in ('true', 'false'):
            return ('int', 1 if tok == 'true' else 0)
        if tok in ('null',):
            return ('int', 0)
        if tok == 'zeroinitializer':
            return ('zero',)
        if tok in ('undef', 'poison'):
            return ('undef',)
        if re.match(r'-?\d+$', tok):
            return ('int', int(tok))
        if re.match(r'0x[0-9A-Fa-f]+$', tok) or re.match(r'-?\d+\.\d+', tok):
            return ('fp', tok)
        if tok == '{' or (tok == '<' and s.peek() == '{'):
            packed = tok == '<'
            if packed:
                s.next()
            elems = []
            while not s.accept('}'):
                et = s.type()
                elems.append((et, s.value(et)))
                s.accept(',')
            if packed:
                s.expect('>')
            return ('agg', elems)
        if tok in ('getelementptr', 'bitcast', 'inttoptr', 'ptrtoint'):
            inb = s.accept('inbounds')
            s.expect('(')
            if tok == 'getelementptr':
                bt = s.type()
                s.expect(',')
                pt = s.type()
                base = s.value(pt)
                idx = []
                while s.accept(','):
                    s.accept('inrange')
                    it = s.type()
                    idx.append((it, s.value(it)))
                s.expect(')')
                return ('cgep', bt, base, idx)
            st = s.type()
            v = s.value(st)
            s.expect('to')
            s.type()
            s.expect(')')
            return v
        raise Unsupported('value? %r in %r' % (tok, ' '.join(s.t)[:200]))


class Instr(object):
    def __init__(s, **kw):
        s.__dict__.update(kw)

    def __repr__(s):
        return 'Instr(%s)' % s.src


class Func(object):
    def __init__(s, name, ret, params):
        s.name, s.ret, s.params, s.blocks, s.order = name, ret, params, {}, []


class Module(object):
    def __init__(s):
        s.types = {}
        s.funcs = {}
        s.decls = set()
        s.globals = {}
        s.fn_addr = {}

    def addr_of_fn(s, name):
        if name not in s.fn_addr:
            s.fn_addr[name] = 0x7F0000000000 + 16 * (len(s.fn_addr) + 1)
        return s.fn_addr[name]


BINOPS = {'add', 'sub', 'mul', 'and', 'or', 'xor', 'shl', 'lshr', 'ashr', 'udiv', 'sdiv', 'urem', 'srem'}
CASTS = {'zext', 'sext', 'trunc', 'bitcast', 'ptrtoint', 'inttoptr'}


def parse_module(text):
    mod = Module()
    lines = text.split('\n')
    i = 0
    cur = None
    blk = None
    while i < len(lines):
        ln = lines[i]
        i += 1
        st = ln.strip()
        if not st or st.startswith(';'):
            continue
        if cur is None:
            m = re.match(r'(%[-\w.$]+|%"[^"]*") = type (.*)$', st)
            if m:
                p = P(lex(m.group(2)), mod)
                t = p.type()
                if isinstance(t, StructTy):
                    t.name = m.group(1)
                mod.types[m.group(1)] = t
                continue
            if st.startswith('define'):
                toks = lex(st)
                p = P(toks, mod)
                k = next(j for j, t in enumerate(toks) if t[0] == '@')
                name = toks[k]
                rt = None
                for j in range(1, k):
                    try:
                        q = P(toks[j:k], mod)
                        q.skip_attrs()
                        t = q.type()
                        if q.i == len(q.t):
                            rt = t
                            break
                    except Exception:
                        pass
                if rt is None:
                    raise Unsupported('cannot parse return type: ' + st[:200])
                p.i = k + 1
                p.expect('(')
                params = []
                while not p.accept(')'):
                    if p.accept('...'):
                        continue
                    t = p.type()
                    p.skip_attrs()
                    nm = p.next()
                    params.append((nm, t))
                    p.accept(',')
                cur = Func(name, rt, params)
                mod.funcs[name] = cur
                blk = '%' + str(len(params)) if all(re.match(r'%\d+$', n) for n, _ in params) else '%entry'
                cur.blocks[blk] = []
                cur.order.append(blk)
                continue
            if st.startswith('declare'):
                toks = lex(st)
                k = next(j for j, t in enumerate(toks) if t[0] == '@')
                mod.decls.add(toks[k])
                continue
            m = re.match(r'(@[-\w.$]+|@"[^"]*") = ', st)
            if m:
                mod.globals[m.group(1)] = st
            continue
        if st == '}':
            cur = None
            continue
        m = re.match(r'([-\w.$]+):', st)
        if m and not st.startswith('%'):
            blk = '%' + m.group(1)
            cur.blocks[blk] = []
            cur.order.append(blk)
            continue
        if st.startswith('switch') and st.endswith('['):
            while not lines[i].strip().startswith(']'):
                st += ' ' + lines[i].strip()
                i += 1
            st += ' ]'
            i += 1
        try:
            cur.blocks[blk].append(parse_instr(st, mod))
        except Exception as e:    # noqa  -- recorded, raised only if the instruction is ever executed
            cur.blocks[blk].append(Instr(op='?', dst=None, src=st, unsupported=str(e)))
    return mod


def parse_instr(st, mod):
    toks = lex(st)
    cut = len(toks)
    for j, t in enumerate(toks):
        if t.startswith('!') and j > 0 and toks[j - 1] == ',':
            cut = j - 1
            break
    toks = toks[:cut]
    p = P(toks, mod)
    dst = None
    if p.peek(1) == '=':
        dst = p.next()
        p.next()
    op = p.next()
    if op in ('tail', 'musttail', 'notail'):
        op = p.next()
    I = Instr(op=op, dst=dst, src=st)
    if op in BINOPS:
        while p.peek() in ('nuw', 'nsw', 'exact'):
            I.__dict__.setdefault('flags', []).append(p.next())
        I.ty = p.type()
        I.a = p.value(I.ty)
        p.expect(',')
        I.b = p.value(I.ty)
    elif op == 'icmp':
        I.pred = p.next()
        I.ty = p.type()
        I.a = p.value(I.ty)
        p.expect(',')
        I.b = p.value(I.ty)
    elif op in CASTS:
        I.sty = p.type()
        I.a = p.value(I.sty)
        p.expect('to')
        I.ty = p.type()
    elif op == 'freeze':
        I.ty = p.type()
        I.a = p.value(I.ty)
    elif op == 'load':
        p.accept('volatile')
        I.ty = p.type()
        p.expect(',')
        I.pty = p.type()
        I.a = p.value(I.pty)
    elif op == 'store':
        p.accept('volatile')
        I.ty = p.type()
        I.v = p.value(I.ty)
        p.expect(',')
        I.pty = p.type()
        I.a = p.value(I.pty)
    elif op == 'getelementptr':
        I.inbounds = p.accept('inbounds')
        I.bty = p.type()
        p.expect(',')
        I.pty = p.type()
        I.a = p.value(I.pty)
        I.idx = []
        while p.accept(','):
            p.accept('inrange')
            it = p.type()
            I.idx.append((it, p.value(it)))
    elif op == 'br':
        if p.peek() == 'label':
            p.next()
            I.targets = [p.next()]
            I.cond = None
        else:
            t = p.type()
            I.cond = p.value(t)
            p.expect(',')
            p.expect('label')
            a = p.next()
            p.expect(',')
            p.expect('label')
            b = p.next()
            I.targets = [a, b]
    elif op == 'phi':
        I.ty = p.type()
        I.inc = []
        while True:
            p.expect('[')
            v = p.value(I.ty)
            p.expect(',')
            b = p.next()
            p.expect(']')
            I.inc.append((v, b))
            if not p.accept(','):
                break
    elif op == 'select':
        ct = p.type()
        I.c = p.value(ct)
        p.expect(',')
        I.ty = p.type()
        I.a = p.value(I.ty)
        p.expect(',')
        t2 = p.type()
        I.b = p.value(t2)
    elif op == 'ret':
        I.ty = p.type()
        I.a = None if isinstance(I.ty, VoidTy) else p.value(I.ty)
    elif op == 'call':
        while p.peek() in ('fastcc', 'ccc'):
            p.next()
        p.skip_attrs()
        I.ty = p.type()
        if isinstance(I.ty, FnTy):
            I.ty = I.ty.ret
        I.fn = p.next()
        p.expect('(')
        I.args = []
        while not p.accept(')'):
            t = p.type()
            p.skip_attrs()
            if isinstance(t, MetaTy):
                p.next()
                I.args.append((t, ('undef',)))
            else:
                I.args.append((t, p.value(t)))
            p.accept(',')
    elif op == 'switch':
        I.ty = p.type()
        I.a = p.value(I.ty)
        p.expect(',')
        p.expect('label')
        I.default = p.next()
        p.expect('[')
        I.cases = []
        while not p.accept(']'):
            t = p.type()
            v = p.value(t)
            p.expect(',')
            p.expect('label')
            I.cases.append((v[1], p.next()))
    elif op == 'alloca':
        I.ty = p.type()
    elif op == 'unreachable':
        pass
    elif op == 'extractvalue':
        I.ty = p.type()
        I.a = p.value(I.ty)
        I.idx = []
        while p.accept(','):
            I.idx.append(int(p.next()))
    elif op == 'insertvalue':
        I.ty = p.type()
        I.a = p.value(I.ty)
        p.expect(',')
        I.vty = p.type()
        I.v = p.value(I.vty)
        I.idx = []
        while p.accept(','):
            I.idx.append(int(p.next()))
    else:
        I.unsupported = 'opcode ' + op
    return I


# ----------------------------------------------------------------------------- execution
class Violation(Exception):
    def __init__(s, kind, model, where, cls='memory'):
        Exception.__init__(s, kind)
        s.kind, s.model, s.where, s.cls = kind, model, where, cls


class Obj(object):
    def __init__(s, oid, base, size, name, writable=True, heap=False):
        s.oid, s.base, s.size, s.name, s.writable, s.heap = oid, base, size, name, writable, heap


class Val(object):
    __slots__ = ('e', 'prov', 'poison')

    def __init__(s, e, prov=None, poison=None):
        s.e, s.prov, s.poison = e, prov, poison


class Agg(object):
    __slots__ = ('elems',)

    def __init__(s, elems):
        s.elems = elems


def _por(*ps):
    ps = [p for p in ps if p is not None]
    if not ps:
        return None
    if len(ps) == 1:
        return ps[0]
    return z3.Or(*ps)


class State(object):
    def __init__(s):
        s.cmem = {}          # concrete address -> 8-bit term
        s.amem = None        # z3 array once a symbolic-address / bulk operation happened
        s.pc = []
        s.frames = []
        s.ptrshadow = {}
        s.allocs = []        # (size term, where)
        s.events = []

    def clone(s):
        n = State()
        n.cmem = dict(s.cmem)
        n.amem = s.amem
        n.pc = list(s.pc)
        n.ptrshadow = dict(s.ptrshadow)
        n.frames = [dict(f, locals=dict(f['locals']), visits=dict(f['visits'])) for f in s.frames]
        n.allocs = list(s.allocs)
        n.events = list(s.events)
        return n


_UNINIT = [0]


class Exec(object):
    def __init__(s, mod, max_visits=8, timeout_s=None):
        s.mod = mod
        s.objs = []
        s.solver = z3.Solver()
        s.stats = dict(paths=0, queries=0, forks=0, instrs=0, solver_s=0.0)
        s.max_visits = max_visits
        s.alloc_limit = None
        s.deadline = (time.time() + timeout_s) if timeout_s else None
        s.ub_sites = {}

    # ---- objects and memory
    def new_obj(s, size, name, writable=True, heap=False):
        oid = len(s.objs)
        base = (oid + 1) << 40
        o = Obj(oid, base, size, name, writable, heap)
        s.objs.append(o)
        return o

    def ptr(s, obj, off=0):
        return Val(z3.BitVecVal(obj.base + off, 64), obj.oid)

    def bv(s, v, bits):
        return z3.BitVecVal(v, bits)

    def check(s, st, extra):
        if s.deadline and time.time() > s.deadline:
            raise Unsupported('time budget of the query exceeded')
        s.stats['queries'] += 1
        t0 = time.time()
        s.solver.push()
        s.solver.add(*st.pc)
        s.solver.add(extra)
        r = s.solver.check()
        m = s.solver.model() if r == z3.sat else None
        if r == z3.unsat and XCHECK['max'] and XCHECK['seen'] % XCHECK['stride'] == 0 and len(XCHECK['log']) < XCHECK['max']:
            XCHECK['log'].append(s.solver.to_smt2())      # re-decided by independent solver binaries (cppharness.crosscheck)
        if r == z3.unsat:
            XCHECK['seen'] += 1
        s.solver.pop()
        s.stats['solver_s'] += time.time() - t0
        if r == z3.unknown:
            raise Unsupported('solver unknown')
        return m

    def _materialise(s, st):
        if st.amem is None:
            _UNINIT[0] += 1
            arr = z3.Array('M0_%d' % _UNINIT[0], z3.BitVecSort(64), z3.BitVecSort(8))
        else:
            arr = st.amem
        for a, b in st.cmem.items():
            arr = z3.Store(arr, z3.BitVecVal(a, 64), b)
        st.amem = arr
        st.cmem = {}

    def read8(s, st, addr):
        a = z3.simplify(addr)
        if z3.is_bv_value(a):
            k = a.as_long()
            if k in st.cmem:
                return st.cmem[k]
            if st.amem is None:
                _UNINIT[0] += 1
                b = z3.BitVec('uninit_%x_%d' % (k, _UNINIT[0]), 8)
                st.cmem[k] = b
                return b
            return z3.simplify(z3.Select(st.amem, a))
        s._materialise(st)
        return z3.Select(st.amem, a)

    def write8(s, st, addr, b):
        a = z3.simplify(addr)
        if z3.is_bv_value(a) and st.amem is None:
            st.cmem[a.as_long()] = b
            return
        if z3.is_bv_value(a):
            st.amem = z3.Store(st.amem, a, b)
            return
        s._materialise(st)
        st.amem = z3.Store(st.amem, a, b)

    def width(s, ty):
        ty = res(ty)
        if isinstance(ty, (IntTy, FpTy)):
            return ty.bits
        if isinstance(ty, PtrTy):
            return 64
        raise Unsupported('width of %r' % ty)

    # ---- values
    def zero_of(s, ty):
        t = res(ty)
        if isinstance(t, StructTy):
            return Agg([s.zero_of(e) for e in t.elems])
        if isinstance(t, ArrTy):
            return Agg([s.zero_of(t.el) for _ in range(t.n)])
        return Val(s.bv(0, s.width(t)))

    def val(s, st, ty, v):
        k = v[0]
        if k == 'local':
            try:
                return st.frames[-1]['locals'][v[1]]
            except KeyError:
                raise Unsupported('use of undefined local %s' % v[1])
        if k == 'int':
            return Val(s.bv(v[1], s.width(ty)))
        if k == 'zero':
            return s.zero_of(ty)
        if k == 'undef':
            t = res(ty)
            if isinstance(t, (StructTy, ArrTy)):
                return s.zero_of(ty)
            return Val(z3.FreshConst(z3.BitVecSort(s.width(ty)), 'undef'))
        if k == 'global':
            if v[1] in s.mod.funcs or v[1] in s.mod.decls:
                return Val(s.bv(s.mod.addr_of_fn(v[1]), 64))
            return Val(s.bv(0x7777000000000000 + (hash(v[1]) & 0xFFFFF0), 64))      # opaque data global: any access is unsupported
        if k == 'cgep':
            return Val(s.bv(0x7777000000000000, 64))
        if k == 'agg':
            return Agg([s.val(st, et, ev) for et, ev in v[1]])
        if k == 'fp':
            import struct as _st
            t = res(ty)
            tok = v[1]
            if tok.startswith('0x'):
                bits64 = int(tok, 16)               # LLVM prints float/double constants as the IEEE double bit pattern
                d = _st.unpack('<d', _st.pack('<Q', bits64))[0]
            else:
                d = float(tok)
            if isinstance(t, FpTy) and t.bits == 32:
                return Val(s.bv(_st.unpack('<I', _st.pack('<f', d))[0], 32))
            if isinstance(t, FpTy) and t.bits == 64:
                return Val(s.bv(_st.unpack('<Q', _st.pack('<d', d))[0], 64))
            raise Unsupported('floating point constant of type %r' % t)
        raise Unsupported('val %r' % (v,))

    def _osize(s, o):
        return o.size if z3.is_expr(o.size) else s.bv(o.size, 64)

    def access_ok(s, st, p, nbytes, write, where):
        if isinstance(p, Agg):
            raise Unsupported('aggregate as address')
        if p.prov is None:
            raise Unsupported('no provenance for access at %s' % where)
        o = s.objs[p.prov]
        size = s._osize(o)
        off = p.e - s.bv(o.base, 64)
        bad = z3.Or(z3.UGT(off, size), z3.UGT(off + nbytes, size), z3.ULT(off + nbytes, off))
        bad = z3.simplify(bad)
        if not z3.is_false(bad):
            m = s.check(st, bad)
            if m is not None:
                raise Violation('out-of-bounds %s of %d bytes on %s' % ('write' if write else 'read', nbytes, o.name), m, where)
        if write and not o.writable:
            raise Violation('write to read-only object ' + o.name, s.check(st, z3.BoolVal(True)), where)

    def range_ok(s, st, p, n, write, where):
        if p.prov is None:
            raise Unsupported('no provenance for range access at %s' % where)
        o = s.objs[p.prov]
        size = s._osize(o)
        off = p.e - s.bv(o.base, 64)
        bad = z3.simplify(z3.And(n != 0, z3.Or(z3.UGT(off, size), z3.UGT(off + n, size), z3.ULT(off + n, off))))
        if not z3.is_false(bad):
            m = s.check(st, bad)
            if m is not None:
                raise Violation('out-of-bounds range %s on %s' % ('write' if write else 'read', o.name), m, where)
        if write and not o.writable:
            m = s.check(st, n != 0)
            if m is not None:
                raise Violation('write to read-only object ' + o.name, m, where)

    def load(s, st, p, ty, where):
        t = res(ty)
        if isinstance(t, (StructTy, ArrTy)):
            raise Unsupported('aggregate load')
        n = size_of(t)
        s.access_ok(st, p, n, False, where)
        bs = [s.read8(st, p.e + i) for i in range(n)]
        e = z3.simplify(z3.Concat(*reversed(bs))) if n > 1 else bs[0]
        w = s.width(t)
        if w < n * 8:
            e = z3.Extract(w - 1, 0, e)
        prov = None
        if isinstance(t, PtrTy):
            a = z3.simplify(p.e)
            if z3.is_bv_value(a):
                prov = st.ptrshadow.get(a.as_long())
        return Val(e, prov)

    def store(s, st, p, ty, v, where):
        t = res(ty)
        if isinstance(v, Agg) or isinstance(t, (StructTy, ArrTy)):
            raise Unsupported('aggregate store')
        n = size_of(t)
        s.access_ok(st, p, n, True, where)
        e = v.e
        if e.size() < n * 8:
            e = z3.ZeroExt(n * 8 - e.size(), e)
        for i in range(n):
            s.write8(st, p.e + i, z3.simplify(z3.Extract(8 * i + 7, 8 * i, e)))
        if isinstance(t, PtrTy):
            a = z3.simplify(p.e)
            if z3.is_bv_value(a):
                st.ptrshadow[a.as_long()] = v.prov

    def gep(s, st, I, where):
        base = s.val(st, I.pty, I.a)
        ty = I.bty
        off = s.bv(0, 64)
        first = True
        for (it, iv) in I.idx:
            x = s.val(st, it, iv).e
            if x.size() < 64:
                x = z3.SignExt(64 - x.size(), x)
            if first:
                off = off + x * size_of(ty)
                first = False
                continue
            t = res(ty)
            if isinstance(t, StructTy):
                k = z3.simplify(x).as_long()
                off = off + struct_layout(t)[0][k]
                ty = t.elems[k]
            elif isinstance(t, ArrTy):
                off = off + x * size_of(t.el)
                ty = t.el
            else:
                raise Unsupported('gep into %r' % t)
        r = Val(z3.simplify(base.e + off), base.prov, base.poison)
        if I.inbounds and base.prov is not None:
            o = s.objs[base.prov]
            oob = z3.simplify(z3.UGT(r.e - s.bv(o.base, 64), s._osize(o)))
            if not z3.is_false(oob):
                if z3.is_true(oob) or s.check(st, oob) is not None:
                    r.poison = _por(r.poison, oob)      # poison, not an immediate error (-O1 speculates pos+N into selects)
        return r

    def use_poison(s, st, v, where, what):
        """poison reaching a side effect: undefined behaviour (forming an out-of-bounds pointer and acting on it)"""
        if isinstance(v, Agg) or v.poison is None:
            return
        m = s.check(st, v.poison)
        if m is not None:
            key = where
            if key not in s.ub_sites:
                s.ub_sites[key] = dict(what=what, model=m, where=where)
            st.events.append(('UB-POINTER', what, where))

    # ---- driver
    def run(s, fname, args, st):
        """-> list of (state, return Val or None, Violation or None) for every feasible path"""
        if fname not in s.mod.funcs:
            raise Unsupported('function not in module: ' + fname)
        f = s.mod.funcs[fname]
        depth = len(st.frames)
        st.frames.append(dict(fn=f, locals={n: a for (n, _), a in zip(f.params, args)}, blk=f.order[0], prev=None, ip=0, visits={}, calldst=None))
        work = [st]
        done = []
        while work:
            cur = work.pop()
            try:
                rv = s.step_path(cur, work, depth)
                s.stats['paths'] += 1
                done.append((cur, rv, None))
            except Violation as v:
                s.stats['paths'] += 1
                done.append((cur, None, v))
        return done

    def step_path(s, st, work, depth):
        while True:
            fr = st.frames[-1]
            f = fr['fn']
            I = f.blocks[fr['blk']][fr['ip']]
            fr['ip'] += 1
            where = '%s %s: %s' % (f.name, fr['blk'], I.src[:90])
            s.stats['instrs'] += 1
            L = fr['locals']
            op = I.op
            if getattr(I, 'unsupported', None):
                raise Unsupported('unsupported instruction (%s): %s' % (I.unsupported, I.src[:120]))
            if op in BINOPS:
                a = s.val(st, I.ty, I.a)
                b = s.val(st, I.ty, I.b)
                if op in ('udiv', 'sdiv', 'urem', 'srem'):
                    z = z3.simplify(b.e == 0)
                    if not z3.is_false(z):
                        m = s.check(st, z)
                        if m is not None:
                            raise Violation('division by zero', m, where, cls='ub')
                if op in ('shl', 'lshr', 'ashr'):
                    z = z3.simplify(z3.UGE(b.e, a.e.size()))
                    if not z3.is_false(z):
                        m = s.check(st, z)
                        if m is not None:
                            raise Violation('shift by >= bit width', m, where, cls='ub')
                fn = {'add': lambda x, y: x + y, 'sub': lambda x, y: x - y, 'mul': lambda x, y: x * y, 'and': lambda x, y: x & y,
                      'or': lambda x, y: x | y, 'xor': lambda x, y: x ^ y, 'shl': lambda x, y: x << y, 'lshr': z3.LShR,
                      'ashr': lambda x, y: x >> y, 'udiv': z3.UDiv, 'sdiv': lambda x, y: x / y, 'urem': z3.URem, 'srem': z3.SRem}[op]
                prov = a.prov if b.prov is None else (b.prov if a.prov is None else None)
                if op == 'sub' and a.prov is not None and b.prov is not None:
                    prov = None
                r = fn(a.e, b.e)
                if _FAULT == op:                  # deliberate mis-model, used only to test the engine validation
                    r = r ^ 1
                L[I.dst] = Val(z3.simplify(r), prov, _por(a.poison, b.poison))
            elif op == 'icmp':
                a = s.val(st, I.ty, I.a)
                b = s.val(st, I.ty, I.b)
                fn = {'eq': lambda x, y: x == y, 'ne': lambda x, y: x != y, 'ult': z3.ULT, 'ule': z3.ULE, 'ugt': z3.UGT, 'uge': z3.UGE,
                      'slt': lambda x, y: x < y, 'sle': lambda x, y: x <= y, 'sgt': lambda x, y: x > y, 'sge': lambda x, y: x >= y}[I.pred]
                L[I.dst] = Val(z3.simplify(z3.If(fn(a.e, b.e), s.bv(1, 1), s.bv(0, 1))), None, _por(a.poison, b.poison))
            elif op in CASTS:
                a = s.val(st, I.sty, I.a)
                if isinstance(a, Agg):
                    raise Unsupported('cast of aggregate')
                w = s.width(I.ty)
                e = a.e
                if op == 'zext':
                    e = z3.ZeroExt(w - e.size(), e)
                elif op == 'sext':
                    e = z3.SignExt(w - e.size(), e)
                elif op == 'trunc':
                    e = z3.Extract(w - 1, 0, e)
                elif op == 'bitcast' and e.size() != w:
                    raise Unsupported('bitcast changing width')
                L[I.dst] = Val(z3.simplify(e), a.prov, a.poison)
            elif op == 'freeze':
                L[I.dst] = s.val(st, I.ty, I.a)
            elif op == 'load':
                L[I.dst] = s.load(st, s.val(st, I.pty, I.a), I.ty, where)
            elif op == 'store':
                v = s.val(st, I.ty, I.v)
                s.use_poison(st, v, where, 'out-of-bounds pointer stored to memory')
                s.store(st, s.val(st, I.pty, I.a), I.ty, v, where)
            elif op == 'getelementptr':
                L[I.dst] = s.gep(st, I, where)
            elif op == 'alloca':
                o = s.new_obj(size_of(I.ty), 'alloca ' + (I.dst or ''))
                L[I.dst] = Val(s.bv(o.base, 64), o.oid)
            elif op == 'select':
                c = s.val(st, IntTy(1), I.c)
                a = s.val(st, I.ty, I.a)
                b = s.val(st, I.ty, I.b)
                L[I.dst] = s.select(c, a, b)
            elif op == 'extractvalue':
                a = s.val(st, I.ty, I.a)
                for k in I.idx:
                    if not isinstance(a, Agg):
                        raise Unsupported('extractvalue of non-aggregate')
                    a = a.elems[k]
                L[I.dst] = a
            elif op == 'insertvalue':
                a = s.val(st, I.ty, I.a)
                v = s.val(st, I.vty, I.v)
                if not isinstance(a, Agg) or len(I.idx) != 1:
                    raise Unsupported('insertvalue form')
                el = list(a.elems)
                el[I.idx[0]] = v
                L[I.dst] = Agg(el)
            elif op == 'phi':
                raise Unsupported('phi not at block entry')
            elif op == 'br' or op == 'switch':
                if op == 'br' and I.cond is None:
                    succ = [(None, I.targets[0])]
                elif op == 'br':
                    cv = s.val(st, IntTy(1), I.cond)
                    s.use_poison(st, cv, where, 'branch on a value derived from an out-of-bounds pointer')
                    c = z3.simplify(cv.e)
                    if z3.is_bv_value(c):
                        succ = [(None, I.targets[0] if c.as_long() else I.targets[1])]
                    else:
                        succ = [(c == 1, I.targets[0]), (c == 0, I.targets[1])]
                else:
                    av = s.val(st, I.ty, I.a)
                    s.use_poison(st, av, where, 'switch on a poison value')
                    a = z3.simplify(av.e)
                    succ = []
                    rest = []
                    for cv, tgt in I.cases:
                        succ.append((a == cv, tgt))
                        rest.append(a != cv)
                    succ.append((z3.And(*rest) if rest else None, I.default))
                feas = []
                for cond, tgt in succ:
                    if cond is None:
                        feas.append((cond, tgt))
                        continue
                    cs = z3.simplify(cond)
                    if z3.is_false(cs):
                        continue
                    if z3.is_true(cs) or s.check(st, cs) is not None:
                        feas.append((None if z3.is_true(cs) else cs, tgt))
                if not feas:
                    raise Unsupported('no feasible successor (inconsistent path condition) at ' + where)
                if len(feas) > 1:
                    s.stats['forks'] += len(feas) - 1
                for cond, tgt in feas[1:]:
                    n = st.clone()
                    s.goto(n, tgt, cond)
                    work.append(n)
                cond, tgt = feas[0]
                s.goto(st, tgt, cond)
            elif op == 'ret':
                rv = None if I.a is None else s.val(st, I.ty, I.a)
                if rv is not None:
                    s.use_poison(st, rv, where, 'poison value returned')
                st.frames.pop()
                if len(st.frames) == depth:
                    return rv
                cf = st.frames[-1]
                if cf.get('calldst'):
                    cf['locals'][cf['calldst']] = rv
                    cf['calldst'] = None
            elif op == 'call':
                s.call(st, I, where)
            elif op == 'unreachable':
                raise Violation('reached `unreachable`', s.check(st, z3.BoolVal(True)), where, cls='ub')
            else:
                raise Unsupported('unhandled op %s' % op)

    def select(s, c, a, b):
        if isinstance(a, Agg) or isinstance(b, Agg):
            if not (isinstance(a, Agg) and isinstance(b, Agg)) or len(a.elems) != len(b.elems):
                raise Unsupported('select on mismatching aggregates')
            return Agg([s.select(c, x, y) for x, y in zip(a.elems, b.elems)])
        ce = z3.simplify(c.e)
        if z3.is_bv_value(ce):
            r = a if ce.as_long() else b
            return Val(r.e, r.prov, _por(r.poison, c.poison))
        if a.prov == b.prov:
            prov = a.prov
        elif a.prov is None:
            prov = b.prov if z3.is_bv_value(z3.simplify(a.e)) and z3.simplify(a.e).as_long() == 0 else None
        elif b.prov is None:
            prov = a.prov if z3.is_bv_value(z3.simplify(b.e)) and z3.simplify(b.e).as_long() == 0 else None
        else:
            prov = None
        pz = None
        if a.poison is not None or b.poison is not None:
            pa = a.poison if a.poison is not None else z3.BoolVal(False)
            pb = b.poison if b.poison is not None else z3.BoolVal(False)
            pz = z3.simplify(z3.If(ce == 1, pa, pb))
            if z3.is_false(pz):
                pz = None
        return Val(z3.simplify(z3.If(ce == 1, a.e, b.e)), prov, _por(pz, c.poison))

    def goto(s, st, tgt, cond):
        fr = st.frames[-1]
        if cond is not None:
            st.pc.append(cond)
        prev = fr['blk']
        fr['prev'] = prev
        fr['blk'] = tgt
        fr['ip'] = 0
        v = fr['visits']
        v[tgt] = v.get(tgt, 0) + 1
        if v[tgt] > s.max_visits:
            raise Unsupported('unwinding bound (%d) exceeded at %s %s' % (s.max_visits, fr['fn'].name[:60], tgt))
        # phis are evaluated simultaneously on block entry
        blk = fr['fn'].blocks[tgt]
        new = {}
        k = 0
        while k < len(blk) and blk[k].op == 'phi':
            I = blk[k]
            for val, b in I.inc:
                if b == prev:
                    new[I.dst] = s.val(st, I.ty, val)
                    break
            else:
                raise Unsupported('phi: no incoming for %s in %s' % (prev, tgt))
            k += 1
        fr['locals'].update(new)
        fr['ip'] = k

    def call(s, st, I, where):
        name = I.fn
        fr = st.frames[-1]
        if name.startswith('@llvm.lifetime') or name.startswith('@llvm.experimental.noalias') or name.startswith('@llvm.dbg'):
            return
        args = [s.val(st, t, v) for t, v in I.args]
        if name == '@llvm.assume':
            c = args[0].e == 1
            if s.check(st, z3.Not(c)) is not None:
                st.events.append(('ASSUME-NOT-PROVED', where))
            st.pc.append(c)
            return
        if name.startswith('@llvm.bswap'):
            e = args[0].e
            n = e.size() // 8
            fr['locals'][I.dst] = Val(z3.simplify(z3.Concat(*[z3.Extract(8 * i + 7, 8 * i, e) for i in range(n)])), None, args[0].poison)
            return
        if name.startswith('@llvm.umax') or name.startswith('@llvm.umin') or name.startswith('@llvm.smax') or name.startswith('@llvm.smin'):
            a, b = args[0].e, args[1].e
            c = {'umax': z3.UGT(a, b), 'umin': z3.ULT(a, b), 'smax': a > b, 'smin': a < b}[name.split('.')[1]]
            fr['locals'][I.dst] = Val(z3.simplify(z3.If(c, a, b)))
            return
        if name == '@__assert_fail':
            raise Violation('assertion failure (abort)', s.check(st, z3.BoolVal(True)), where, cls='abort')
        if name in ('@_Znwm', '@_Znam'):
            n = z3.simplify(args[0].e)
            st.allocs.append((n, where))
            if s.alloc_limit is not None:
                over = z3.simplify(z3.UGT(n, s.bv(s.alloc_limit, 64)))
                if not z3.is_false(over):
                    m = s.check(st, over)
                    if m is not None:
                        st.events.append(('ALLOC-DISPROPORTIONATE', str(n)[:120], where, m))
                        st.pc.append(z3.ULE(n, s.bv(s.alloc_limit, 64)))
                        if s.check(st, z3.BoolVal(True)) is None:
                            raise Violation('allocation request out of proportion to the input (%s bytes requested, limit %d)'
                                            % (str(n)[:80], s.alloc_limit), m, where, cls='alloc')
            o = s.new_obj(n, 'heap#%d' % len(s.objs), heap=True)
            fr['locals'][I.dst] = Val(s.bv(o.base, 64), o.oid)
            return
        if name in ('@_ZdlPv', '@_ZdaPv', '@_ZdlPvm'):
            return
        if name.startswith('@llvm.memset'):
            p, v, n = args[0], args[1].e, z3.simplify(args[2].e)
            if z3.is_bv_value(n) and n.as_long() <= 256:
                if n.as_long():
                    s.access_ok(st, p, n.as_long(), True, where)
                for i in range(n.as_long()):
                    s.write8(st, p.e + i, v)
            else:
                s.range_ok(st, p, n, True, where)
                s._materialise(st)
                a = z3.BitVec('a!', 64)
                old = st.amem
                st.amem = z3.Lambda([a], z3.If(z3.And(z3.ULE(p.e, a), z3.ULT(a, p.e + n)), v, z3.Select(old, a)))
            return
        if name.startswith('@llvm.memmove') or name.startswith('@llvm.memcpy'):
            d, sr, n = args[0], args[1], z3.simplify(args[2].e)
            if z3.is_bv_value(n) and n.as_long() <= 256:
                k = n.as_long()
                if k:
                    s.access_ok(st, d, k, True, where)
                    s.access_ok(st, sr, k, False, where)
                bs = [s.read8(st, sr.e + i) for i in range(k)]
                for i in range(k):
                    s.write8(st, d.e + i, bs[i])
                # pointer provenance travels with 8-byte aligned copies
                da, sa = z3.simplify(d.e), z3.simplify(sr.e)
                if z3.is_bv_value(da) and z3.is_bv_value(sa):
                    for i in range(0, k - 7, 8):
                        if sa.as_long() + i in st.ptrshadow:
                            st.ptrshadow[da.as_long() + i] = st.ptrshadow[sa.as_long() + i]
                return
            s.range_ok(st, d, n, True, where)
            s.range_ok(st, sr, n, False, where)
            s._materialise(st)
            a = z3.BitVec('a!', 64)
            old = st.amem
            st.amem = z3.Lambda([a], z3.If(z3.And(z3.ULE(d.e, a), z3.ULT(a, d.e + n)), z3.Select(old, a - d.e + sr.e), z3.Select(old, a)))
            return
        if name.startswith('@_ZSt') and 'throw' in name:
            raise Violation('abort via ' + name, s.check(st, z3.BoolVal(True)), where, cls='abort')
        if name in ('@abort', '@_ZSt9terminatev'):
            raise Violation('abort', s.check(st, z3.BoolVal(True)), where, cls='abort')
        if name in s.mod.funcs:
            f = s.mod.funcs[name]
            fr['calldst'] = I.dst
            if len(st.frames) > 64:
                raise Unsupported('call depth exceeded')
            st.frames.append(dict(fn=f, locals={n: a for (n, _), a in zip(f.params, args)}, blk=f.order[0], prev=None, ip=0, visits={}, calldst=None))
            return
        raise Unsupported('external call not modelled: ' + name)


def model_bytes(m, terms):
    return [m.eval(t, model_completion=True).as_long() for t in terms]
