"""C01 - Python encode emits exactly the documented wire format (E1: real encode vs wirespec, all values symbolic)."""
import time
from . import common as C
from . import codec_e1 as X

BOUNDS = dict(family='F (vf/family.py)', array_lengths='{0,1,2} per array (limited<N>: also N), subset per shape in quick tier',
              values='full range of every integer field; enum: any enumerator; presence and union arm symbolic; both byte orders',
              outside='floats symbolic (concrete samples only), schemas outside F, arrays longer than 2')


def run(tier):
    t0 = time.time()
    obs, conds, fam, _ = X.run_value_checks('C01', tier, ['enc'])
    return C.finish('C01', tier, obs, t0, functions=X.FUNCS_ENC, bounds=BOUNDS,
                    assumptions=['reference vf/wirespec.py re-derives all 22 worked examples of docs/encoding.rst at start of run',
                                 'engine patches 1-6 (vf/chpatches.py); int.to_bytes modelled by linear digit decomposition',
                                 'float fields carry concrete sample values'],
                    extra=dict(shapes=len(fam['shapes']), signature_rule=X.explain_note()))
