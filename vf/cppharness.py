"""E2 harness: build generated C++ (+ driver) to LLVM IR per family chunk, run llsym queries in worker processes,
replay counterexamples natively under ASan/UBSan.  Used by C03 C05 C07 C08 C09 C19(C++) and the C04 constants."""
import json
import os
import re
import subprocess
import time
import multiprocessing

from . import common as C
from . import wirespec as W
from . import family as F
from . import pyharness as H

CLANG = 'clang++-14'
INC = os.path.join(C.REPO, 'prophy_cpp', 'include')
ENDS = {'le': 'little', 'be': 'big', 'na': 'native'}


def cpp_name(t):
    return t.name


def chunked(shapes, n):
    return [shapes[i:i + n] for i in range(0, len(shapes), n)]


def driver_source(stem, shapes, raw=False):
    out = ['#include "%s.ppf.cpp"\n#include <new>\nusing namespace prophy::generated;\nextern "C" {\n' % stem]
    for s in shapes:
        n = s.name
        out.append('void ctor_%s(void* p) { new (p) %s(); }\n' % (n, n))
        for e, en in ENDS.items():
            out.append('bool dec_%s_%s(%s* x, const uint8_t* d, size_t n) { return x->decode<prophy::%s>(d, n); }\n' % (n, e, n, en))
            out.append('size_t enc_%s_%s(const %s* x, uint8_t* out) { return x->encode<prophy::%s>(out); }\n' % (n, e, n, en))
        out.append('size_t gbs_%s(const %s* x) { return x->get_byte_size(); }\n' % (n, n))
        out.append('long ebs_%s() { return %s::encoded_byte_size; }\n' % (n, n))
        out.append('size_t sizeof_%s() { return sizeof(%s); }\n' % (n, n))
    out.append('#include <cstddef>\n')
    for t in W.collect_types(shapes):
        tt = W.strip(t)
        if isinstance(t, W.Typedef) or not isinstance(tt, (W.Struct, W.Union)):
            continue
        if isinstance(tt, W.Union):
            names = ['discriminator'] + [a[1] for a in tt.arms]
        else:
            sz = W.sizer_names(tt)
            names = [f.name for f in tt.fields if f.name not in sz]
        for m in names:
            out.append('size_t off_%s__%s() { return offsetof(%s, %s); }\n' % (tt.name, m, tt.name, m))
        out.append('size_t tsize_%s() { return sizeof(%s); }\n' % (tt.name, tt.name))
    out.append('}\n')
    return ''.join(out)


def build_chunk(args):
    """prophyc -> generated sources -> driver -> clang -O1 IR.  -> dict(ll, stem, dir, shapes names, text, error)"""
    work, idx, names, text, raw = args
    d = os.path.join(work, 'chunk%03d' % idx)
    os.makedirs(d, exist_ok=True)
    stem = 'fam%03d' % idx
    src = os.path.join(d, stem + '.prophy')
    with open(src, 'w') as f:
        f.write(text)
    opts = ['--cpp_out', d] if raw else ['--cpp_full_out', d]
    rc, out, err = C.sh([C.PY, '-m', 'prophyc'] + opts + [src], cwd=C.REPO, env={'PYTHONPATH': C.REPO}, timeout=300)
    if rc != 0:
        return dict(idx=idx, error='prophyc failed: ' + (err or out)[-600:], names=names, dir=d, stem=stem, text=text)
    return dict(idx=idx, names=names, dir=d, stem=stem, text=text, error=None)


def compile_ir(d, stem, driver_text, name='drv', opt='-O1'):
    drv = os.path.join(d, name + '.cpp')
    with open(drv, 'w') as f:
        f.write(driver_text)
    ll = os.path.join(d, name + '.ll')
    rc, out, err = C.sh([CLANG, '-std=c++11', opt, '-fno-exceptions', '-S', '-emit-llvm', '-Wno-invalid-offsetof', '-I', INC, '-I', d, drv, '-o', ll], timeout=600)
    if rc != 0:
        return None, (err or out)[-1500:]
    return ll, None


def prepare(work, shapes, chunk=8, raw=False, driver=driver_source, jobs=None, also_O0=False):
    """-> list of chunk dicts with 'll' (IR path; 'll0' = the unoptimised IR when also_O0) and 'shapes' (AST list)"""
    chunks = chunked(shapes, chunk)
    tasks = []
    for i, ch in enumerate(chunks):
        text = W.render(W.collect_types(ch))
        tasks.append((work, i, [s.name for s in ch], text, raw))
    res = C.run_pool(tasks, build_chunk, workers=jobs or C.NCPU)

    def comp(r):
        if r['error']:
            return r
        ch = chunks[r['idx']]
        ll, err = compile_ir(r['dir'], r['stem'], driver(r['stem'], ch, raw))
        r['ll'] = ll
        if err:
            r['error'] = 'clang failed: ' + err
        elif also_O0:
            r['ll0'], err0 = compile_ir(r['dir'], r['stem'], driver(r['stem'], ch, raw), name='drv0', opt='-O0')
            if err0:
                r['error'] = 'clang -O0 failed: ' + err0
        return r
    res = C.run_pool(res, comp, workers=jobs or C.NCPU)
    for r in res:
        r['shapes'] = chunks[r['idx']]
    return res


# ---------------------------------------------------------------- z3 side of the reference

class Z3Ops(object):
    import z3 as _z3
    zero = _z3.BitVecVal(0, 8)

    @staticmethod
    def int_bytes(v, size, signed, e):
        import z3
        if isinstance(v, int):
            v = z3.BitVecVal(v % (1 << (8 * size)), 8 * size)
        if v.size() != 8 * size:
            raise ValueError('width mismatch %d vs %d' % (v.size(), 8 * size))
        bs = [z3.simplify(z3.Extract(8 * i + 7, 8 * i, v)) for i in range(size)]
        return bs if e == '<' else bs[::-1]

    @staticmethod
    def float_bytes(v, size, e):
        return Z3Ops.int_bytes(v, size, False, e)      # floats are opaque bit patterns on the C++ side

    @staticmethod
    def octet(v):
        import z3
        return z3.BitVecVal(v, 8) if isinstance(v, int) else v


class Z3Source(object):
    """value-tree source: scalars are fresh bit-vectors, lengths / presence / arms are concrete per query"""

    def __init__(self, lens, pres, arms, tag=''):
        self.lens, self.pres, self.arms = list(lens), list(pres), list(arms)
        self.li = self.pi = self.ai = 0
        self.vars = []
        self.constraints = []
        self.tag = tag
        self.need = None

    def length(self, choices):
        if self.li >= len(self.lens):
            raise H.NeedLength(choices)
        v = self.lens[self.li]
        self.li += 1
        return v

    def _fresh(self, bits):
        import z3
        v = z3.BitVec('v%s_%d' % (self.tag, len(self.vars)), bits)
        self.vars.append(v)
        return v

    def int(self, lo, hi):
        bits = (hi - lo + 1).bit_length() - 1
        return self._fresh(bits)

    def float(self):
        # wirespec asks float() for float scalars; width is recovered by the caller through float_bits
        v = self._fresh(64)
        return v

    def bool(self):
        if self.pi >= len(self.pres):
            self.need = 'pres'
            raise NeedChoice('pres', 2)
        v = self.pres[self.pi]
        self.pi += 1
        return bool(v)

    def choice(self, k):
        if self.ai >= len(self.arms):
            raise NeedChoice('arm', k)
        v = self.arms[self.ai]
        self.ai += 1
        return v


class NeedChoice(Exception):
    def __init__(self, kind, k):
        self.kind, self.k = kind, k


def make_value_z3(t, src):
    """like pyharness.make_value but float scalars get a bit-vector of their own width and enum leaves are symbolic
    32-bit values constrained to the declared enumerators"""
    import z3
    t = W.strip(t)
    if isinstance(t, W.Scalar):
        return src._fresh(8 * t.size)
    if isinstance(t, W.Enum):
        v = src._fresh(32)
        src.constraints.append(z3.Or(*[v == (m[1] & 0xFFFFFFFF) for m in t.members]))
        return v
    if isinstance(t, W.Union):
        d = src.choice(len(t.arms))
        a = t.arms[d]
        return (a[1], make_value_z3(a[2], src))
    if isinstance(t, W.Struct):
        out = {}
        sizers = W.sizer_names(t)
        ext_len = {}
        for f in t.fields:
            if f.name in sizers:
                continue
            form = f.form
            if form == 'plain':
                out[f.name] = make_value_z3(f.type, src)
            elif form == 'optional':
                p = src.bool()
                out[f.name] = make_value_z3(f.type, src) if p else None
            else:
                if form[0] == 'fixed':
                    n = form[1]
                elif form[0] == 'ext':
                    if form[1] not in ext_len:
                        ext_len[form[1]] = src.length(H.len_choices(form, f.bytes))
                    n = ext_len[form[1]]
                else:
                    n = src.length(H.len_choices(form, f.bytes))
                if f.bytes:
                    out[f.name] = [src._fresh(8) for _ in range(n)]
                else:
                    out[f.name] = [make_value_z3(f.type, src) for _ in range(n)]
        return out
    raise TypeError(t)


def enumerate_profiles(t, cap=None):
    """all (lens, pres, arms) assignments; presence/arm choices are discovered like the lengths (by need)"""
    done = []
    stack = [([], [], [])]
    while stack:
        lens, pres, arms = stack.pop()
        try:
            make_value_z3(t, Z3Source(lens, pres, arms))
            done.append((tuple(lens), tuple(pres), tuple(arms)))
        except H.NeedLength as e:
            for c in reversed(e.choices):
                stack.append((lens + [c], pres, arms))
        except NeedChoice as e:
            for c in reversed(range(e.k)):
                if e.kind == 'pres':
                    stack.append((lens, pres + [c], arms))
                else:
                    stack.append((lens, pres, arms + [c]))
    done.sort()
    if cap and len(done) > cap:
        step = (len(done) - 1) / float(cap - 1)
        pick = sorted(set(int(round(i * step)) for i in range(cap)))
        done = [done[i] for i in pick]
    return done


# ---------------------------------------------------------------- worker side

_MODS = {}


def load_ir(path):
    from . import llsym as L
    if path not in _MODS:
        with open(path) as f:
            _MODS[path] = L.parse_module(f.read())
    return _MODS[path]


def struct_type(mod, name):
    key = '%"struct.prophy::generated::' + name + '"'
    if key in mod.types:
        return mod.types[key]
    key2 = '%struct.' + name
    if key2 in mod.types:
        return mod.types[key2]
    raise KeyError(name)


def short_site(where):
    """demangled-ish short name of the IR function a violation happened in"""
    m = re.match(r'(@\S+)', where)
    fn = m.group(1) if m else where
    try:
        r = subprocess.run(['c++filt', fn[1:]], capture_output=True, text=True, timeout=10)
        d = r.stdout.strip() or fn
    except Exception:
        d = fn
    d = re.sub(r'prophy::generated::\w+', 'T', d)
    d = re.sub(r'^(bool|void|unsigned char\*|unsigned long) ', '', d)
    d = re.sub(r'\(.*$', '', d)
    d = re.sub(r'<[^<>]*>', '<>', d)
    d = re.sub(r'<[^<>]*>', '<>', d)
    return d[-90:]


def run_task(task):
    """dispatch to a query function by name; always returns a list of result dicts (one per obligation)"""
    from . import cppqueries as Q
    from . import llsym
    import z3
    t0 = time.time()
    nx = int(task.get('xcheck', 0) or 0)
    llsym.XCHECK.update(max=nx, stride=int(task.get('xcheck_stride', 3)), seen=0, log=[])
    try:
        res = getattr(Q, task['query'])(task)
    except Exception as e:    # noqa
        import traceback
        res = [dict(oid=task['oid'], verdict='error', detail='%s: %s | %s' % (type(e).__name__, e, traceback.format_exc()[-600:]), desc=task.get('desc', {}))]
    if nx and llsym.XCHECK['log']:
        xc = crosscheck(llsym.XCHECK['log'])
        for r in res:
            r['xcheck'] = xc
            if xc['disagree'] and r['verdict'] == 'discharged':
                r['verdict'] = 'error'
                r['detail'] = 'solver cross-check: z3 %s answered unsat but %s' % (z3.get_version_string(), xc['disagree'][0])
    llsym.XCHECK.update(max=0, log=[])
    for r in res:
        r.setdefault('wall', round(time.time() - t0, 3))
    return res


def crosscheck(queries, tlimit=20):
    """every sampled 'unsat' of the in-process z3 is decided again by the z3 4.8.12 and cvc5 1.0.3 binaries.
    'sat' from either is a disagreement (machinery error); timeout / unknown / unsupported construct is inconclusive."""
    import tempfile
    out = dict(queries=len(queries), disagree=[], z3_4_8=dict(unsat=0, inconclusive=0), cvc5=dict(unsat=0, inconclusive=0))
    for text in queries:
        body = text if '(check-sat)' in text else text + '\n(check-sat)\n'
        with tempfile.NamedTemporaryFile('w', suffix='.smt2', dir=C.workdir('xcheck', fresh=False), delete=False) as f:
            f.write(body)
            path = f.name
        try:
            for key, cmd in (('z3_4_8', ['/usr/bin/z3', '-T:%d' % tlimit, path]), ('cvc5', ['cvc5', '--tlimit=%d' % (tlimit * 1000), path])):
                rc, o, e = C.sh(cmd, timeout=tlimit + 10)
                ans = (o or '').strip().splitlines()[:1]
                ans = ans[0].strip() if ans else ''
                if '(error' in (o or '') or '(error' in (e or ''):
                    ans = 'error'
                if ans == 'unsat':
                    out[key]['unsat'] += 1
                elif ans == 'sat':
                    keep = os.path.join(C.workdir('xcheck', fresh=False), 'disagree-%s-%d.smt2' % (key, abs(hash(body)) % 10 ** 8))
                    with open(keep, 'w') as g:
                        g.write(body)
                    out['disagree'].append('%s answers sat (%s)' % (key, keep))
                else:
                    out[key]['inconclusive'] += 1
        finally:
            os.unlink(path)
    return out


def run_tasks(tasks, jobs=None):
    jobs = jobs or C.NCPU
    if C.DONE:
        tasks = [t for t in tasks if t['oid'] not in C.DONE]       # second pass of a two-pass thorough run
    if not tasks:
        return []
    oids = [t['oid'] for t in tasks]
    if len(set(oids)) != len(oids):
        seen, dup = set(), []
        for o in oids:
            if o in seen:
                dup.append(o)
            seen.add(o)
        raise C.HarnessError('query ids are not unique: %r' % dup[:5])
    # solver cross-check on a sample: every k-th task re-decides up to n of its 'unsat' answers with two other solvers
    tier = os.environ.get('VF_TIER', 'quick')
    every = int(os.environ.get('VF_XCHECK_EVERY', '12' if tier == 'quick' else '4'))
    if every > 0:
        for i, t in enumerate(tasks):
            if i % every == 0:
                t.setdefault('xcheck', 3)
    ctx = multiprocessing.get_context('fork')
    budget = C.budget_s()
    deadline = (time.time() + budget) if budget else None
    out = []
    with ctx.Pool(min(jobs, len(tasks)), maxtasksperchild=40) as pool:
        step = jobs * 6
        for i in range(0, len(tasks), step):
            if deadline and time.time() > deadline:
                for t in tasks[i:]:
                    out.append(dict(oid=t['oid'], verdict='inconclusive', detail='not explored: wall-time budget of the run exhausted', desc=t.get('desc', {}),
                                    chunk=t.get('chunk'), violations=[]))
                break
            for res in pool.imap_unordered(run_task, tasks[i:i + step], chunksize=1):
                out.extend(res)
    return out


# ---------------------------------------------------------------- native replay

REPLAY_MAIN = r'''
#include "%(stem)s.ppf.cpp"
#include <cstdio>
#include <cstdlib>
#include <cstring>
#include <string>
#include <vector>
using namespace prophy::generated;
static size_t g_max_req = 0;
void* operator new(size_t n) { if (n > g_max_req) g_max_req = n; void* p = malloc(n ? n : 1); if (!p) abort(); return p; }
void operator delete(void* p) noexcept { free(p); }
void operator delete(void* p, size_t) noexcept { free(p); }
static std::vector<uint8_t> unhex(const char* h) { std::vector<uint8_t> v; size_t n = strlen(h) / 2; for (size_t i = 0; i < n; i++) { unsigned x; sscanf(h + 2 * i, "%%2x", &x); v.push_back((uint8_t)x); } return v; }
template <class T, prophy::endianness E> int run_dec(const char* hex)
{
    std::vector<uint8_t> in = unhex(hex);
    size_t n = in.size();
    uint8_t* buf = (uint8_t*)malloc(n ? n : 1);          // exact-size heap block: ASan sees any over-read
    if (n) memcpy(buf, in.data(), n);
    T* x = new T();
    g_max_req = 0;
    bool ok = x->template decode<E>(n ? buf : buf + 1, n);
    printf("ok=%%d maxreq=%%zu", (int)ok, g_max_req);
    if (ok) {
        size_t g = x->get_byte_size();
        std::vector<uint8_t> out(g + 64, 0xAA);
        size_t w = x->template encode<E>(out.data());
        printf(" gbs=%%zu written=%%zu out=", g, w);
        for (size_t i = 0; i < w && i < out.size(); i++) printf("%%02x", out[i]);
        size_t clobber = 0; for (size_t i = (w > g ? w : g); i < out.size(); i++) if (out[i] != 0xAA) clobber++;
        printf(" clobber=%%zu", clobber);
        std::vector<uint8_t> l(g + 64, 0), b(g + 64, 0), na(g + 64, 0);
        size_t wl = x->template encode<prophy::little>(l.data()), wb = x->template encode<prophy::big>(b.data()), wn = x->template encode<prophy::native>(na.data());
        printf(" le="); for (size_t i = 0; i < wl && i < l.size(); i++) printf("%%02x", l[i]);
        printf(" be="); for (size_t i = 0; i < wb && i < b.size(); i++) printf("%%02x", b[i]);
        printf(" na="); for (size_t i = 0; i < wn && i < na.size(); i++) printf("%%02x", na[i]);
    }
    printf("\n");
    free(buf);
    delete x;
    return 0;
}
int main(int argc, char** argv)
{
    if (argc < 4) return 2;
    std::string t = argv[1], e = argv[2];
%(dispatch)s
    return 3;
}
'''


def build_replay(chunk, sanitize=True):
    """one native replay binary per chunk: ./replay <Struct> <le|be|na> <hex>"""
    d, stem = chunk['dir'], chunk['stem']
    exe = os.path.join(d, 'replay')
    if os.path.exists(exe):
        return exe, None
    disp = []
    for s in chunk['shapes']:
        for e, en in ENDS.items():
            disp.append('    if (t == "%s" && e == "%s") return run_dec<%s, prophy::%s>(argv[3]);\n' % (s.name, e, s.name, en))
    with open(os.path.join(d, 'replay.cpp'), 'w') as f:
        f.write(REPLAY_MAIN % dict(stem=stem, dispatch=''.join(disp)))
    cmd = ['g++', '-std=c++11', '-O0', '-g', '-I', INC, '-I', d, os.path.join(d, 'replay.cpp'), '-o', exe]
    if sanitize:
        cmd[4:4] = ['-fsanitize=address,undefined', '-fno-omit-frame-pointer']
    rc, out, err = C.sh(cmd, timeout=900)
    if rc != 0:
        return None, (err or out)[-1200:]
    return exe, None


def native_decode(chunk, struct, e, data):
    exe, err = build_replay(chunk)
    if exe is None:
        return dict(error='replay build failed: ' + err)
    hx = ''.join('%02x' % b for b in data)
    env = {'ASAN_OPTIONS': 'detect_leaks=0:abort_on_error=0:allocator_may_return_null=1:max_allocation_size_mb=512', 'UBSAN_OPTIONS': 'print_stacktrace=0'}
    rc, out, err = C.sh([exe, struct, e, hx if hx else ''], timeout=120, env=env)
    r = dict(rc=rc, stdout=out.strip()[-600:], stderr=(err or '')[-1500:])
    m = re.search(r'ok=(\d) maxreq=(\d+)(?: gbs=(\d+) written=(\d+) out=([0-9a-f]*) clobber=(\d+))?', out)
    if m:
        r.update(ok=int(m.group(1)), maxreq=int(m.group(2)))
        if m.group(3) is not None:
            r.update(gbs=int(m.group(3)), written=int(m.group(4)), out=m.group(5), clobber=int(m.group(6)))
    m = re.search(r' le=([0-9a-f]*) be=([0-9a-f]*) na=([0-9a-f]*)', out)
    if m:
        r.update(le=m.group(1), be=m.group(2), na=m.group(3))
    r['asan'] = 'AddressSanitizer' in (err or '')
    r['ubsan'] = 'runtime error' in (err or '')
    r['abort'] = rc in (134, -6) or 'terminate called' in (err or '') or 'Assertion' in (err or '')
    return r


# ---------------------------------------------------------------- results -> obligations (with native replay)

def _holds_vector(t):
    """does a (fixed-size) struct type hold a std::vector in the C++ full codec (limited array / limited bytes)?"""
    t = W.strip(t)
    if not isinstance(t, W.Struct):
        return False
    for f in t.fields:
        if isinstance(f.form, tuple) and f.form[0] == 'limited':
            return True
        if not f.bytes and f.form in ('plain', 'optional') and _holds_vector(f.type):
            return True
    return False


def shape_fingerprint(t):
    """structural class of a message type, used to key known findings of the C++ full codec"""
    if t is None:
        return None
    for x in F.walk_types(t):
        if isinstance(x, W.Struct):
            for f in x.fields:
                if f.form == 'optional' and not f.bytes and _holds_vector(f.type):
                    return 'optional of a fixed struct that holds a limited array (std::vector member)'
    return None


def confirm_decode_violation(chunk, shape, e, v, L):
    """replay one llsym decode-side counterexample on the natively compiled code -> (reproduced?, text)"""
    hx = v.get('input_hex')
    if hx is None:
        return None, 'no witness bytes'
    data = bytes.fromhex(hx)
    r = native_decode(chunk, shape, e, data)
    if r.get('error'):
        return None, r['error']
    cls = v['cls']
    txt = 'native: rc=%s %s %s' % (r.get('rc'), r.get('stdout', '')[:160], (r.get('stderr') or '').strip().splitlines()[1:2])
    if cls in ('memory', 'reencode', 'decode-memory', 'encode-memory', 'gbs-memory'):
        return bool(r.get('asan') or r.get('rc') in (139, -11) or r.get('clobber', 0) > 0), txt
    if cls == 'alloc':
        return r.get('maxreq', 0) > v.get('limit', 0) or bool(r.get('abort')) or bool(r.get('asan')), txt + ' limit=%s' % v.get('limit')
    if cls in ('abort', 'decode-abort', 'encode-abort'):
        return bool(r.get('abort')), txt
    if cls in ('ub', 'decode-ub', 'encode-ub'):
        return bool(r.get('ubsan') or r.get('asan') or r.get('abort')), txt
    if cls == 'exact':
        return r.get('ok') == 1 and (r.get('gbs') != len(data) or r.get('written') != len(data)), txt
    if cls == 'compat':
        if r.get('ok') != 1:
            return True, txt
        return r.get('out') != hx, txt
    if cls == 'size':
        return r.get('ok') == 1 and (r.get('gbs') != len(data) or r.get('written') != len(data)), txt
    if cls == 'byteorder':
        return None, 'byte-order violations are replayed by the caller'
    return None, 'unknown class ' + cls


def to_obligations(prop, results, chunks, check, engine='E2-llsym', e_of=lambda r: r['desc'].get('endianness', 'le'), confirm=confirm_decode_violation):
    from .common import Obligation, DISCHARGED, VIOLATED, INCONCLUSIVE, ERROR
    obs = []
    nrep = 0
    by_idx = dict((c['idx'], c) for c in chunks)
    ev_rs = [r for r in results if r.get('engine_validation') and r['verdict'] == 'discharged']
    if ev_rs:
        C.run_pool([by_idx[i] for i in sorted(set(r['chunk'] for r in ev_rs))], build_replay)
        nats = C.run_pool(ev_rs, lambda r: native_decode(by_idx[r['chunk']], r['desc']['shape'], e_of(r), bytes.fromhex(r['engine_validation']['input_hex'])))
        for r, n in zip(ev_rs, nats):
            r['_native'] = n
    for r in sorted(results, key=lambda r: r['oid']):
        o = Obligation(r['oid'], engine, dict(r.get('desc', {})))
        o.paths = r.get('paths', 0)
        o.solver_s = r.get('solver_s', 0.0)
        o.wall_s = r.get('wall', 0.0)
        o.nontrivial = bool(r.get('nontrivial'))
        if r.get('xcheck'):
            xc = r['xcheck']
            o.desc['solver_crosscheck'] = dict(unsat_queries_rechecked=xc['queries'], z3_4_8_12=xc['z3_4_8'], cvc5_1_0_3=xc['cvc5'], disagreements=len(xc['disagree']))
        if r.get('ub_pointer'):
            o.desc['ub_pointer_findings'] = [dict(what=u['what'], site=u['site']) for u in r['ub_pointer']][:4]
        v = r['verdict']
        if v == 'discharged':
            o.verdict = DISCHARGED
            ev = r.get('engine_validation')
            if ev is not None:
                # executor-vs-native differential on concrete bytes: a difference is a machinery error, never a violation
                nat = r['_native']
                same = (not nat.get('error') and nat.get('ok') == ev['ok'] and
                        (not ev['ok'] or (nat.get('gbs') == ev['gbs'] and nat.get('written') == ev['written'] and nat.get('out') == ev['out'])))
                o.desc['engine_validation'] = 'IR executor and native build agree on %d concrete bytes' % (len(ev['input_hex']) // 2)
                if not same:
                    o.verdict = ERROR
                    o.detail = 'IR executor disagrees with the native build on concrete input %s: executor %r native %r' % (
                        ev['input_hex'], dict((k, ev[k]) for k in ('ok', 'gbs', 'written', 'out')), dict((k, nat.get(k)) for k in ('ok', 'gbs', 'written', 'out', 'error')))
        elif v == 'inconclusive':
            o.verdict = INCONCLUSIVE
            o.detail = r.get('detail', '')
        elif v == 'error':
            o.verdict = ERROR
            o.detail = r.get('detail', '')
        else:
            chunk = by_idx[r['chunk']]
            shape = r['desc']['shape']
            confirmed = []
            notes = []
            seen = set()
            for viol in r['violations']:
                key = (viol['cls'], viol.get('site'))
                if key in seen:
                    continue
                seen.add(key)
                ok, txt = confirm(chunk, shape, e_of(r), viol, r['desc'].get('input_length'))
                notes.append('%s@%s: %s' % (viol['cls'], viol.get('site'), txt[:200]))
                if ok:
                    confirmed.append((viol, txt))
            if confirmed:
                viol, txt = confirmed[0]
                o.verdict = VIOLATED
                o.replayed = True
                o.signature = dict(check=check, cls=viol['cls'].replace('decode-', '').replace('encode-', ''), site=viol.get('site'))
                if viol.get('fingerprint'):
                    o.signature['fingerprint'] = viol['fingerprint']
                else:
                    fam = dict((s.name, s) for s in chunk['shapes'])
                    fp = shape_fingerprint(fam.get(shape))
                    if fp:
                        o.signature['fingerprint'] = fp
                o.detail = '%s | %s' % (viol['kind'][:160], txt[:240])
                o.witness = dict(shape=shape, endianness=e_of(r), input_hex=viol.get('input_hex'))
                nrep += 1
                o.replay_path = C.write_replay(prop, nrep, dict(property=prop, engine=engine, kind='cpp-decode', shape=shape, endianness=e_of(r),
                                                                 input_hex=viol.get('input_hex'), violation=viol, native=txt, schema_text=chunk['text'],
                                                                 all_violations=r['violations'][:6]))
            else:
                o.verdict = ERROR
                o.detail = 'llsym counterexample(s) did not reproduce natively: ' + ' || '.join(notes)[:600]
        obs.append(o)
    return obs
