"""E1 codec checks over the schema family: C01 (encode == reference), C02 (round trip), C19-py (byte order), C06 (decode totality)."""
import json
import os
import time

from . import common as C
from . import wirespec as W
from . import family as F
from . import pyharness as H
from .chrun import Cond, run_conditions, to_obligations, concrete_reach

HEADER = '''# generated harness module (E1) -- shape %(shape)s, tier %(tier)s
import os
from vf import pyharness as H, family as F, wirespec as W
H.setup()
T = dict((s.name, s) for s in F.family(%(tier)r))[%(shape)r]
GEN = H.load_module(%(gen)r)
CLS = getattr(GEN, %(shape)r)
PROFILES = %(profiles)r


def explain(fn, args, kwargs):
    return H.explain_codec(CLS, T, PROFILES, fn, args)

'''


def prepare_family(tier, work, shapes=None):
    fam = shapes if shapes is not None else F.family(tier)
    types = W.collect_types(fam)
    text = W.render(types)
    src = os.path.join(work, 'fam.prophy')
    with open(src, 'w') as f:
        f.write(text)
    rc, out, err = C.sh([C.PY, '-m', 'prophyc', '--python_out', work, src], cwd=C.REPO, timeout=600,
                        env={'PYTHONPATH': C.REPO})
    if rc != 0 or not os.path.exists(os.path.join(work, 'fam.py')):
        raise C.HarnessError('prophyc failed on the family schema: rc=%s %s' % (rc, (err or out)[-1500:]))
    return dict(gen=os.path.join(work, 'fam.py'), text=text, shapes=fam, src=src)


def _sig(params, extra=()):
    ps = ['%s: %s' % (n, ty) for n, ty, _, _ in params] + list(extra)
    return ', '.join(ps)


def _pres(params, extra=()):
    lines = ['    pre: ' + pre for _, _, pre, _ in params if pre] + ['    pre: ' + e for e in extra]
    return '\n'.join(lines)


def write_value_module(work, tier, fam, shape, profiles, checks):
    """one module per shape; functions <check>__p<k>.  checks subset of enc, rt, end"""
    body = [HEADER % dict(shape=shape.name, tier=tier, gen=fam['gen'], profiles={('p%d' % i): p for i, p in enumerate(profiles)})]
    conds = []
    path = os.path.join(work, 'h_%s.py' % shape.name)
    for i, prof in enumerate(profiles):
        plan = H.plan_for(shape, prof)
        names = [n for n, _, _, _ in plan.params]
        sample = [s for _, _, _, s in plan.params]
        for chk in checks:
            fn = '%s__p%d' % (chk, i)
            if chk == 'end':
                sig = _sig(plan.params)
                call = 'H.check_endian(CLS, T, PROFILES[%r], [%s])' % ('p%d' % i, ', '.join(names))
                sargs = list(sample)
            else:
                sig = _sig(plan.params, ['be: bool'])
                call = 'H.%s(CLS, T, PROFILES[%r], [%s], be)' % ({'enc': 'check_encode', 'rt': 'check_roundtrip'}[chk], 'p%d' % i, ', '.join(names))
                sargs = list(sample) + [True]
            pres = _pres(plan.params)
            body.append('def %s(%s) -> bool:\n    """\n%s\n    post: _\n    """\n    return %s\n\n' % (fn, sig, pres, call))
            conds.append(Cond(path, fn, '%s/%s/%s' % (shape.name, chk, 'x'.join(map(str, prof)) or '-'),
                              dict(shape=shape.name, check=chk, lengths=list(prof), symbolic=names + (['be'] if chk != 'end' else [])),
                              sample_args=sargs))
    if 'rt' in checks:
        # array counters: the count round trip alone with a symbolic count up to the decoder's array guard (65536)
        k = 0
        sizer_fields = W.sizer_names(W.strip(shape))
        for it in W.struct_items(shape):
            if it['kind'] == 'counter':
                hi = 65536
            elif it['kind'] == 'plain' and it['f'].name in sizer_fields:
                st = W.strip(it['f'].type)
                hi = min(65536, (1 << (8 * st.size - (1 if getattr(st, 'signed', False) else 0))) - 1)
            else:
                continue
            fn = 'cnt__%d' % k
            body.append('def %s(n: int, be: bool) -> bool:\n    """\n    pre: 0 <= n <= %d\n    post: _\n    """\n    return H.check_count_accept(CLS, %d, n, be)\n\n' % (fn, hi, k))
            conds.append(Cond(path, fn, '%s/count-roundtrip/%d' % (shape.name, k),
                              dict(shape=shape.name, check='array counter round trip', counter=k, symbolic='element count n in [0, %d] + byte order' % hi),
                              sample_args=[hi, True]))
            k += 1
    with open(path, 'w') as f:
        f.write(''.join(body))
    return conds


def write_decode_module(work, tier, fam, shape, lengths, valid_lengths):
    body = [HEADER % dict(shape=shape.name, tier=tier, gen=fam['gen'], profiles={})]
    conds = []
    path = os.path.join(work, 'd_%s.py' % shape.name)
    for L in lengths:
        names = ['b%d' % i for i in range(L)]
        sig = ', '.join(['%s: int' % n for n in names] + ['be: bool'])
        pre = ('    pre: ' + ' and '.join('0 <= %s < 256' % n for n in names) + '\n') if names else ''
        for twin in (False, True):
            if twin and L not in valid_lengths:
                continue
            fn = 'dec__L%d%s' % (L, '__twin' if twin else '')
            body.append('def %s(%s) -> bool:\n    """\n%s    post: _\n    """\n    return H.check_decode_total(CLS, T, [%s], be, twin=%r, greedy=%r)\n\n'
                        % (fn, sig, pre, ', '.join(names), twin, F.has_greedy(shape)))
            oid = '%s/dec/L%d' % (shape.name, L)
            desc = dict(shape=shape.name, check='decode-total', input_length=L, symbolic='all %d input bytes + byte order' % L)
            if twin:
                desc = dict(desc, twin_of=oid)
                conds.append(Cond(path, fn, oid + '/twin', desc, twin=True))
            else:
                c = Cond(path, fn, oid, desc)
                # concrete inputs that walk the decoder's error paths with the real message formatting (see chrun.stub_validation)
                pats = [[0] * L, [0xFF] * L, [0x7F] * L, [(1 if i % 4 == 0 else 0) for i in range(L)], [(0xFF if i % 4 == 3 else 0) for i in range(L)],
                        [0, 0, 1, 0] * (L // 4) + [0] * (L % 4), [(i * 37 + 11) % 256 for i in range(L)]]
                c.stub_samples = [p + [be] for p in pats for be in (False, True)] if L else []
                conds.append(c)
    # array counters: bounded whatever the rest of the input is (the 65536 guard of container_len._decode)
    k = 0
    sizer_fields = W.sizer_names(W.strip(shape))
    for it in W.struct_items(shape):
        if it['kind'] == 'counter':
            width = 4
        elif it['kind'] == 'plain' and it['f'].name in sizer_fields:
            width = W.strip(it['f'].type).size
        else:
            continue
        names = ['b%d' % i for i in range(width)]
        fn = 'guard__%d' % k
        body.append('def %s(%s, be: bool) -> bool:\n    """\n    pre: %s\n    post: _\n    """\n    return H.check_count_guard(CLS, %d, [%s], be)\n\n'
                    % (fn, ', '.join('%s: int' % n for n in names), ' and '.join('0 <= %s < 256' % n for n in names), k, ', '.join(names)))
        c = Cond(path, fn, '%s/count-guard/%d' % (shape.name, k),
                 dict(shape=shape.name, check='array counter bounded', counter=k, symbolic='the %d counter bytes + byte order' % width),
                 sample_args=[1] + [0] * (width - 1) + [False])
        pats = [[0xFF] * width, [0x7F] + [0xFF] * (width - 1), [0xFF] * (width - 1) + [0x7F], [0] * (width - 1) + [0x80], [0x80] + [0] * (width - 1),
                ([0, 0, 1] + [0] * width)[:width], ([1, 0, 1] + [0] * width)[:width]]
        c.stub_samples = [p + [be] for p in pats for be in (False, True)]
        conds.append(c)
        k += 1
    with open(path, 'w') as f:
        f.write(''.join(body))
    return conds


def sample_value(t, prof):
    p = H.Plan(prof)
    return H.make_value(t, p)


def aligned_tail(shape, prof):
    pad = W.tail_pad_after_greedy(shape, sample_value(shape, prof))
    return pad is None or pad == 0


FUNCS_ENC = ['prophy.composite.struct.encode', 'prophy.composite.union.encode', 'prophy.descriptor.encode_optional',
             'prophy.descriptor.encode_array_delimiter', 'prophy.descriptor.encode_array', 'prophy.descriptor.encode_composite',
             'prophy.descriptor.encode_bytes', 'prophy.descriptor.encode_scalar', 'prophy.generators.container_len.evaluate_size',
             'prophy.generators.container_len._encode', 'prophy.container.*_array._encode_impl', 'prophy.composite.bytes_._encode',
             'prophy.scalar.numeric_decorator.encode', 'prophy.generators property setters + _check', 'prophyc (concrete, generates the classes)']
FUNCS_DEC = ['prophy.composite.struct._decode_impl', 'prophy.composite.union._decode_impl', 'prophy.descriptor.decode_optional',
             'prophy.descriptor.decode_array_delimiter', 'prophy.descriptor.decode_array', 'prophy.descriptor.decode_bytes',
             'prophy.descriptor.decode_scalar', 'prophy.descriptor.decode_composite', 'prophy.generators.container_len._decode',
             'prophy.container.*_array._decode_impl', 'prophy.container.decode_scalar_array', 'prophy.composite.bytes_._decode',
             'prophy.scalar.numeric_decorator.decode', 'prophy.generators.enum_generator check']


def run_value_checks(prop, tier, checks, t0=None, shape_filter=None, timeout=None, cap=None, family_tier=None):
    t0 = t0 or time.time()
    work = C.workdir(prop + '-py' if family_tier else prop)
    W.self_check()
    ftier = family_tier or ('rich' if tier == 'quick' else tier)
    fam = prepare_family(ftier, work)
    timeout = timeout or (60 if tier == 'quick' else 300)
    cap = cap or (4 if tier == 'quick' else 12)
    conds = []
    skipped = []
    budget = float(os.environ.get('VF_BUDGET_S', '0') or 0) or (None if tier == 'quick' else 3000)
    shapes = list(fam['shapes'])
    for s in shapes:
        if shape_filter and not shape_filter(s):
            continue
        profs = H.length_profiles(s)
        if 'rt' in checks:
            profs = [p for p in profs if aligned_tail(s, p)]
        profs = H.select_profiles(profs, cap)
        conds += write_value_module(work, ftier, fam, s, profs, checks)
    conds = C.only(conds)
    raw = run_conditions(conds, timeout)
    obs, _ = to_obligations(prop, conds, raw, schema_text=fam['text'])
    concrete_reach(conds, obs)
    return obs, conds, fam, t0


def explain_note():
    return ('signature = structural fingerprint of the first diverging byte (role in the reference byte map, form of the enclosing '
            'top-level field) computed by a concrete re-run; see vf/pyharness.py explain_codec')
