"""C11 - copy_from yields an equal, fully independent message (E1: two symbolic messages, copy, one mutation)."""
import os
import time

from . import common as C
from . import apiharness as A
from . import p_c10
from .chrun import run_conditions, to_obligations, concrete_reach

R8, R16 = p_c10.R8, p_c10.R16


def build(g):
    g.add('c11_scalars', [('a0', 'int'), ('b0', 'int'), ('c0', 'int'), ('e0', 'int'), ('n', 'int'), ('y0', 'int'), ('y1', 'int'), ('y2', 'int'),
                          ('a1', 'int'), ('b1', 'int'), ('c1', 'int'), ('e1', 'int'), ('mutate_src', 'bool'), ('fld', 'int'), ('nv', 'int')],
          [R8 % 'a0', '-32768 <= b0 <= 32767', '0 <= c0 < 2**64', '0 <= e0 <= 2', '0 <= n <= 3', R8 % 'y0', R8 % 'y1', R8 % 'y2',
           R8 % 'a1', '-32768 <= b1 <= 32767', '0 <= c1 < 2**64', '0 <= e1 <= 2', '0 <= fld <= 2', '0 <= nv <= 1000', 'nv % 256 != a0'],
          'A.c11_scalars(a0, b0, c0, e0, n, y0, y1, y2, a1, b1, c1, e1, mutate_src, fld, nv)', 'MS/copy_from',
          dict(op='copy_from on scalars/enum/bytes, then one mutation of either side', symbolic='both messages, the mutation'),
          [1, 2, 3, 1, 2, 4, 5, 6, 7, 8, 9, 2, True, 0, 77])
    for what in range(3):
        g.add('c11_optional_union_%d' % what,
              [('p_ou', 'bool'), ('ou0', 'int'), ('p_os', 'bool'), ('sa0', 'int'), ('sb0', 'int'), ('p_ov', 'bool'), ('arm', 'int'), ('uv', 'int'),
               ('q_ou', 'bool'), ('q_os', 'bool'), ('q_ov', 'bool'), ('mutate_src', 'bool'), ('nv', 'int')],
              [R16 % 'ou0', R8 % 'sa0', R16 % 'sb0', '0 <= arm <= 2', R16 % 'uv', '0 <= nv <= 1000'],
              'A.c11_optional_union(p_ou, ou0, p_os, sa0, sb0, p_ov, arm, uv, q_ou, q_os, q_ov, mutate_src, %d, nv)' % what,
              'MO/copy_from/mutate%d' % what,
              dict(op='copy_from with optional scalar / optional struct / optional union present or absent on both sides', symbolic='presence, values, arm'),
              [True, 5, True, 1, 2, True, 2, 9, False, False, True, False, 3])
    g.add('c11_union_struct', [('arm0', 'int'), ('x0', 'int'), ('y0', 'int'), ('za0', 'int'), ('zb0', 'int'), ('arm1', 'int'), ('mutate_src', 'bool'), ('nv', 'int')],
          ['0 <= arm0 <= 2', R8 % 'x0', R16 % 'y0', R8 % 'za0', R16 % 'zb0', '0 <= arm1 <= 2', '0 <= nv <= 100'],
          'A.c11_union_struct(arm0, x0, y0, za0, zb0, arm1, mutate_src, nv)', 'MU/copy_from',
          dict(op='copy_from of a struct holding a union, per arm', symbolic='arms, values'), [2, 1, 2, 3, 4, 0, True, 1])
    for what in range(3):
        g.add('c11_arrays_%d' % what, [('n_la', 'int'), ('n_da', 'int'), ('e0', 'int'), ('e1', 'int'), ('e2', 'int'), ('m_la', 'int'), ('m_da', 'int'), ('mutate_src', 'bool')],
              ['0 <= n_la <= 3', '0 <= n_da <= 3', R8 % 'e0', R8 % 'e1', R8 % 'e2', '0 <= m_la <= 3', '0 <= m_da <= 3'],
              'A.c11_arrays(n_la, n_da, e0, e1, e2, m_la, m_da, mutate_src, %d)' % what, 'MA/copy_from/mutate%d' % what,
              dict(op='copy_from of fixed/limited/dynamic scalar arrays, destination pre-filled', symbolic='lengths, elements'), [2, 1, 3, 4, 5, 3, 0, True])
    for via_extend in (0, 1):
        for what in range(3):
            g.add('c11_carrays_%d_%d' % (via_extend, what),
                  [('n_lc', 'int'), ('n_dc', 'int'), ('a0', 'int'), ('b0', 'int'), ('a1', 'int'), ('b1', 'int'), ('m_lc', 'int'), ('m_dc', 'int'), ('mutate_src', 'bool')],
                  ['0 <= n_lc <= 2', '0 <= n_dc <= 2', R8 % 'a0', R16 % 'b0', R8 % 'a1', R16 % 'b1', '0 <= m_lc <= 2', '0 <= m_dc <= 2'],
                  'A.c11_carrays(n_lc, n_dc, a0, b0, a1, b1, m_lc, m_dc, mutate_src, %d, %d)' % (what, via_extend),
                  'MC/%s/mutate%d' % ('extend' if via_extend else 'copy_from', what),
                  dict(op='%s of limited/dynamic/fixed composite arrays' % ('extend()' if via_extend else 'copy_from'), symbolic='lengths, element fields'),
                  [2, 1, 3, 4, 5, 6, 1, 2, False])


def run(tier):
    t0 = time.time()
    work = C.workdir('C11')
    gen = p_c10.prepare(work)
    g = p_c10.Gen(os.path.join(work, 'copy_steps.py'), tier)
    g.body.append(p_c10.HEAD % dict(gen=gen))
    build(g)
    with open(g.path, 'w') as f:
        f.write(''.join(g.body))
    timeout = 180 if tier == 'quick' else 1200
    g.conds = C.only(g.conds)
    raw = run_conditions(g.conds, timeout)
    obs, _ = to_obligations('C11', g.conds, raw, schema_text=A.API_SCHEMA)
    concrete_reach(g.conds, obs)
    return C.finish('C11', tier, obs, t0,
                    functions=['prophy.composite_base._composite_base.copy_from', 'prophy.composite.struct._copy_implementation', 'prophy.composite.struct.set_field',
                               'prophy.composite.union._copy_implementation', 'prophy.container.bound_composite_array.extend', 'array slice assignment used by set_field'],
                    bounds=dict(schemas='MS MO MU MA MC (vf/apiharness.py)', lengths='scalar arrays 0..3, composite 0..2', mutation='one mutation of source or copy',
                                outside='nesting deeper than 2 levels; arrays longer than 3'),
                    assumptions=['observation = all public attributes + encode("<")', 'the mutation applied afterwards is chosen so that it changes the mutated side'])
