"""C08 - raw C++ struct layout coincides with the wire layout (E2: constants and accessors compiled from <schema>.pp.hpp)."""
import os
import re
import time

from . import common as C
from . import wirespec as W
from . import family as F
from . import cppharness as X
from . import rawharness as R

MAIN8 = r'''
#include <cstdio>
#include <cstring>
#include <stdint.h>
int main()
{
    unsigned char buf[4096];
    for (int i = 0; i < 4096; i++) buf[i] = (unsigned char)(i * 7 + 1);
%(lines)s
    return 0;
}
'''


def build_replay8(chunk):
    d, stem = chunk['dir'], chunk['stem']
    exe = os.path.join(d, 'replay8')
    if os.path.exists(exe):
        return exe, None
    drv = open(os.path.join(d, 'drv.cpp')).read()
    lines = []
    for m in re.finditer(r'size_t (r(?:size|align|off)_\w+)\(\)', drv):
        lines.append('    printf("%s=%%zu\\n", %s());\n' % (m.group(1), m.group(1)))
    for m in re.finditer(r'(\w+) (rget_\w+)\(const ([\w:]+)\* p\)', drv):
        lines.append('    printf("%s=%%llu\\n", (unsigned long long)%s((const %s*)buf));\n' % (m.group(2), m.group(2), m.group(3)))
    with open(os.path.join(d, 'replay8.cpp'), 'w') as f:
        f.write('#include "drv.cpp"\n' + MAIN8 % dict(lines=''.join(lines)))
    rc, out, err = C.sh(['g++', '-std=c++11', '-O0', '-Wno-invalid-offsetof', '-I', X.INC, '-I', d, os.path.join(d, 'replay8.cpp'), '-o', exe], timeout=900)
    if rc != 0:
        return None, (err or out)[-1500:]
    return exe, None


_NATIVE = {}


def native_values(chunk):
    if chunk['idx'] in _NATIVE:
        return _NATIVE[chunk['idx']], None
    exe, err = build_replay8(chunk)
    if exe is None:
        return None, err
    rc, out, err = C.sh([exe], timeout=60)
    vals = dict(l.split('=') for l in out.split() if '=' in l)
    _NATIVE[chunk['idx']] = vals
    return vals, None


def confirm(chunk, shape, e, viol, _L):
    vals, err = native_values(chunk)
    if vals is None:
        return None, 'replay8 build failed: ' + err
    t = viol.get('type')
    site = viol.get('site')
    fam = dict((x.name, x) for x in R.all_types(chunk['shapes']))
    ty = fam[t]
    sz, al, _ = W.type_layout(ty)
    if site == 'sizeof':
        g = int(vals['rsize_' + t])
        return g != sz, 'g++: sizeof(%s)=%d wire=%d' % (t, g, sz)
    if site == 'alignof':
        g = int(vals['ralign_' + t])
        return g != al, 'g++: alignof(%s)=%d wire=%d' % (t, g, al)
    groups = [R.union_members(ty)] if isinstance(ty, W.Union) else R.raw_members(ty)
    k = viol.get('part', 0)
    m = [x for x in groups[k] if x['name'] == viol['member']][0]
    tag = '%s__p%d' % (t, k)
    if site == 'offsetof':
        g = int(vals['roff_%s__%s' % (tag, m['name'])])
        return g != m['offset'], 'g++: offsetof(%s, %s)=%d wire=%d' % (R.part_type(t, k), m['name'], g, m['offset'])
    if site in ('get', 'set'):
        key = 'rget_%s__%s' % (tag, m['name'])
        if key not in vals:
            return None, 'no native accessor value'
        want = 0
        for j in range(m['width']):
            want |= (((m['offset'] + j) * 7 + 1) & 0xFF) << (8 * j)
        return int(vals[key]) != want, 'g++: %s reads %s, bytes at the wire offset give %d' % (key, vals[key], want)
    return None, 'unknown site'


def run(tier):
    t0 = time.time()
    work = C.workdir('C08')
    W.self_check()
    ftier = 'quick' if tier == 'quick' else 'thorough'
    shapes = list(F.family(ftier))
    chunks = X.prepare(work, shapes, chunk=8, raw=True, driver=R.raw_driver)
    errors = [c['error'] for c in chunks if c['error']]
    tasks = []
    seen = set()
    for c in chunks:
        if c['error']:
            continue
        for s in c['shapes']:
            for t in R.all_types([s]):
                if t.name in seen:
                    continue
                seen.add(t.name)
                tasks.append(dict(query='q_raw_layout', oid='%s/raw-layout' % t.name, ll=c['ll'], chunk=c['idx'], shape=s.name, type=t.name, family=ftier,
                                  timeout=60 if tier == 'quick' else 300,
                                  desc=dict(shape=s.name, type=t.name, check='raw-layout', symbolic='every byte of the overlaid buffer; the value written by each setter')))
    pat = os.environ.get('VF_ONLY')
    if pat:
        tasks = [t for t in tasks if pat in t['oid']]
    results = X.run_tasks(tasks)
    obs = X.to_obligations('C08', results, chunks, 'raw-layout', confirm=confirm)
    return C.finish('C08', tier, obs, t0,
                    functions=['generated <schema>.pp.hpp struct / partN / union definitions (PROPHY_STRUCT aligned+packed, _padding members, has_ flags, num_of_ counters)',
                               'generated accessors over every scalar member (read and write)', 'sizeof / alignof / offsetof constant functions'],
                    bounds=dict(types='every struct / union type of F incl. helper types (%d types)' % len(seen), members='all named members of the main struct and of each part',
                                overlay='all bytes of the overlaid buffer symbolic; native endian = little',
                                outside='ABIs other than x86-64 GNU as implemented by clang 14 (g++ is used in the replay); float members are checked by offset only'),
                    assumptions=['reference offsets: vf/rawharness.py over wirespec.struct_items (block starts are part starts)', 'IR from clang++-14 -O1',
                                 'the arithmetic behind _padding members is additionally covered schema-symbolically by C04 Layer A'],
                    extra=dict(build_errors=errors[:5]), errors=errors[:3])
