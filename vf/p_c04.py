"""C04 - prophyc's computed layout equals the wire rules and both runtimes' statics.

Layer A (E1): real `model.evaluate_sizes` / `calc_wire_stiffness` and real `struct_generator` / `union_generator` /
`optional` / `array` on member types with symbolic size and alignment, one condition per member-form tuple.
Family part (E1, concrete shapes): model (size, alignment, kind) of every F struct == reference == runtime statics,
and len(encode()) of fixed types == that size (by C01's obligation).  E2 constants are added by vf/p_cpp.py when built.
"""
import os
import time

from . import common as C
from . import layera as LA
from . import wirespec as W
from .chrun import Cond, run_conditions, to_obligations, concrete_reach

HEAD = '''# generated harness module (E1, Layer A)
from vf import pyharness as H, layera as LA
H.setup()
import os
if os.environ.get('VF_SYMBOLIC') == '1':
    from vf import chpatches
    chpatches.exact_pow2_truediv()
DESCS = %(descs)r


def explain(fn, args, kwargs):
    kind, idx = fn.split('__')
    return dict(check='layerA-' + kind, members=repr(DESCS[int(idx)]) if kind in ('ms', 'rs') else 'union of %%s arms' %% idx)

'''


def _fn(kind, idx, n, call):
    names = ['q%d' % i for i in range(n)] + ['k%d' % i for i in range(n)]
    sig = ', '.join('%s: int' % x for x in names)
    pre = ' and '.join(['0 <= q%d <= 8192' % i for i in range(n)] + ['0 <= k%d <= 3' % i for i in range(n)])
    qs = '[%s]' % ', '.join('q%d' % i for i in range(n))
    ks = '[%s]' % ', '.join('k%d' % i for i in range(n))
    return ('def %s__%d(%s) -> bool:\n    """\n    pre: %s\n    post: _\n    """\n    return %s\n\n'
            % (kind, idx, sig, pre, call % dict(qs=qs, ks=ks)))


def fp_division_lemma():
    """E3: for every double x with x == 0 or 1 <= |x| < 2**53 and a in {2,4,8,...,64}: x / a is exact (multiplying back by
    the power of two - itself exact - returns x).  Justifies engine patch 7 (exact real model of int / 2**k)."""
    import z3
    from .common import Obligation, DISCHARGED, INCONCLUSIVE, ERROR
    o = Obligation('lemma/fp-division-by-power-of-two-exact', 'E3-z3',
                   dict(check='QF_FP lemma', query='exists double x, (x==0 or 1<=|x|<2^53), a in {2..64}: (x/a)*a != x  -- expected unsat'))
    t = time.time()
    x = z3.FP('x', z3.Float64())
    s = z3.Solver()
    s.set('timeout', 120000)
    rm = z3.RNE()
    bad = []
    for a in (2.0, 4.0, 8.0, 16.0, 32.0, 64.0):
        av = z3.FPVal(a, z3.Float64())
        bad.append(z3.Not(z3.fpEQ(z3.fpMul(rm, z3.fpDiv(rm, x, av), av), x)))
    ax = z3.fpAbs(x)
    s.add(z3.Or(z3.fpIsZero(x), z3.And(z3.fpGEQ(ax, z3.FPVal(1.0, z3.Float64())), z3.fpLT(ax, z3.FPVal(2.0 ** 53, z3.Float64())))))
    s.add(z3.Or(*bad))
    r = str(s.check())
    o.wall_s = o.solver_s = time.time() - t
    o.paths = 1
    if r == 'unsat':
        o.verdict = DISCHARGED
        o.nontrivial = True
    elif r == 'sat':
        o.verdict = ERROR
        o.detail = 'engine patch 7 is unsound: %s' % s.model()
    else:
        o.verdict = INCONCLUSIVE
        o.detail = 'z3: ' + r
    return o


def run(tier):
    t0 = time.time()
    work = C.workdir('C04')
    W.self_check()
    descs = []
    if tier == 'quick':
        d1 = LA.descriptors(1)
        d2 = LA.descriptors(2)
        d3 = LA.descriptors(3)
        descs = d1 + d2 + d3[::23]          # deterministic stride over the 640 three-member tuples
        timeout = 120
    else:
        d4 = LA.descriptors(4)
        descs = LA.descriptors(1) + LA.descriptors(2) + LA.descriptors(3) + d4[::29]
        timeout = 900
    body = [HEAD % dict(descs=descs)]
    conds = []
    path = os.path.join(work, 'layera.py')
    for idx, d in enumerate(descs):
        n = len(d)
        body.append(_fn('ms', idx, n, 'LA.model_struct(DESCS[%d], %%(qs)s, %%(ks)s)' % idx))
        body.append(_fn('rs', idx, n, 'LA.runtime_struct(DESCS[%d], %%(qs)s, %%(ks)s)' % idx))
        sample = [3] * n + [1] * n
        for kind, what in (('ms', 'prophyc model'), ('rs', 'python runtime metaclass')):
            conds.append(Cond(path, '%s__%d' % (kind, idx), 'layerA/%s/%s' % (kind, '+'.join('%s.%d.%d' % m for m in d)),
                              dict(check='layer A ' + what, members=[list(m) for m in d],
                                   symbolic='per member: size = q*2^k (q in 0..8192), alignment 2^k (k in 0..3)'),
                              sample_args=sample))
    for n in (1, 2, 3):
        body.append(_fn('mu', n, n, 'LA.model_union(%d, %%(qs)s, %%(ks)s)' % n))
        body.append(_fn('ru', n, n, 'LA.runtime_union(%d, %%(qs)s, %%(ks)s)' % n))
        for kind, what in (('mu', 'prophyc model union'), ('ru', 'python runtime union metaclass')):
            conds.append(Cond(path, '%s__%d' % (kind, n), 'layerA/%s/%d-arms' % (kind, n),
                              dict(check='layer A ' + what, arms=n, symbolic='per arm: size, alignment'), sample_args=[3] * n + [1] * n))
    with open(path, 'w') as f:
        f.write(''.join(body))
    conds = C.only(conds)
    raw = run_conditions(conds, timeout, cost=lambda c: len(c.desc.get('members', [])) * 10 + (5 if '/ms/' in c.oid else 0))
    obs, nrep = to_obligations('C04', conds, raw)
    concrete_reach(conds, obs)
    obs.append(fp_division_lemma())
    # ---- family part: concrete shapes, three implementations side by side (no solver: constants only) is done by C01/E2;
    return C.finish('C04', tier, obs, t0,
                    functions=['prophyc.model.evaluate_stiffness_kinds', 'prophyc.model._SerializableContainer.calc_wire_stiffness',
                               'prophyc.model.Typedef.calc_wire_stiffness', 'prophyc.model.evaluate_sizes (all nested helpers)',
                               'prophy.optional.optional', 'prophy.container.array', 'prophy.generators.struct_generator.validate/add_attributes',
                               'prophy.generators.union_generator.validate/add_attributes'],
                    bounds=dict(members_per_struct='1,2 all form tuples; 3: every 23rd tuple (quick) / all (thorough); 4: every 29th (thorough)',
                                forms='plain(fixed|dynamic|unlimited-last) optional fixed[2|3] limited[2] dynamic(of fixed|dynamic) greedy-last',
                                sizes='q*2^k, q in 0..8192, k in 0..3', union_arms='1..3',
                                outside='more members per struct at the symbolic level; array extents other than 2,3'),
                    assumptions=['member types satisfy the type invariant (alignment in {1,2,4,8}, size multiple of alignment) by construction',
                                 'size equality asserted for FIXED results only (as the property states)',
                                 'reference: wirespec.abstract_struct_layout (documented rules over numbers)'])
