"""The finite schema family F (DESIGN section 3): kind alphabet K, sandwich structs, curated shapes."""
import itertools
from .wirespec import SC, Enum, Struct, Union, Typedef, Field, type_layout, struct_items, strip, FIXED, DYNAMIC, UNLIMITED, Scalar

u8, u16, u32, u64 = SC['u8'], SC['u16'], SC['u32'], SC['u64']
i8, i16, i32, i64 = SC['i8'], SC['i16'], SC['i32'], SC['i64']
r32, r64 = SC['r32'], SC['r64']

E0 = Enum('E0', [('E0_A', 0), ('E0_B', 5), ('E0_C', 0xFFFFFFFF)])
E1 = Enum('E1', [('E1_A', 0), ('E1_B', 2)])                    # no enumerator equal to 1
E5 = Enum('E5', [('E5_A', 5), ('E5_B', 0)])                    # default (first) enumerator is not zero
SE5 = Struct('SE5', [Field('e', E5), Field('x', u8)])          # element whose default value does not encode to zeros
S1 = Struct('S1', [Field('a', u8)])
S2 = Struct('S2', [Field('a', u8), Field('b', u16)])
S8 = Struct('S8', [Field('a', u8), Field('b', u64)])
U4 = Union('U4', [(1, 'x', u8), (2, 'y', u16), (3, 'z', S2)])
U8 = Union('U8', [(1, 'x', u8), (2, 'y', u64)])
D = Struct('D', [Field('v', u16, 'dynamic')])
D8 = Struct('D8', [Field('v', u64, 'dynamic'), Field('t', u8)])
G = Struct('G', [Field('g', u8, 'greedy')])
TU16 = Typedef('TU16', u16)
TTU16 = Typedef('TTU16', TU16)
TS2 = Typedef('TS2', S2)
TU64 = Typedef('TU64', u64)
TS8 = Typedef('TS8', S8)
SO = Struct('SO', [Field('o', u16, 'optional')])               # struct containing an optional (union arm / element)
UO = Union('UO', [(1, 'p', SO), (2, 'q', u8)])
DO = Struct('DO', [Field('v', u8, 'dynamic'), Field('o', u8, 'optional')])   # dynamic struct ending in an optional
SL = Struct('SL', [Field('l', u16, ('limited', 2))])              # fixed-size struct holding a limited array (a std::vector in the C++ full codec)
S12 = Struct('S12', [Field('a', u32), Field('b', u32), Field('c', u32)])
U12 = Union('U12', [(1, 'x', u64), (2, 'y', S12)])             # 8-aligned union whose largest arm is 4 mod 8 bytes long


def _k():
    K = {}

    def plain(n, t):
        K['plain_' + n] = lambda nm, t=t: [Field(nm, t)]
    for n, t in [('u8', u8), ('u16', u16), ('u32', u32), ('u64', u64), ('i8', i8), ('i16', i16), ('i32', i32), ('i64', i64),
                 ('r32', r32), ('r64', r64), ('E0', E0), ('E1', E1), ('S1', S1), ('S2', S2), ('S8', S8), ('U4', U4), ('U8', U8),
                 ('D', D), ('D8', D8), ('TTU16', TTU16), ('TS2', TS2), ('UO', UO), ('DO', DO), ('U12', U12)]:
        plain(n, t)
    for n, t in [('u8', u8), ('u16', u16), ('u32', u32), ('u64', u64), ('E1', E1), ('S2', S2), ('S8', S8), ('U4', U4), ('U8', U8), ('r32', r32), ('SL', SL), ('TU64', TU64), ('TS8', TS8)]:
        K['opt_' + n] = lambda nm, t=t: [Field(nm, t, 'optional')]
    for n, t in [('u8', u8), ('u16', u16), ('u64', u64), ('E0', E0), ('S2', S2), ('U8', U8), ('SE5', SE5)]:
        K['fix_' + n] = lambda nm, t=t: [Field(nm, t, ('fixed', 2))]
        K['dyn_' + n] = lambda nm, t=t: [Field(nm, t, 'dynamic')]
        K['lim_' + n] = lambda nm, t=t: [Field(nm, t, ('limited', 2))]
        K['gre_' + n] = lambda nm, t=t: [Field(nm, t, 'greedy')]
    for sn, st in [('u8', u8), ('u32', u32), ('i8', i8)]:
        for n, t in [('u8', u8), ('u16', u16), ('u64', u64), ('S2', S2)]:
            K['ext%s_%s' % (sn, n)] = lambda nm, t=t, st=st: [Field(nm + '_n', st), Field(nm, t, ('ext', nm + '_n'))]
    K['ext2_u8_u16'] = lambda nm: [Field(nm + '_n', u8), Field(nm, u8, ('ext', nm + '_n')), Field(nm + '2', u16, ('ext', nm + '_n'))]
    K['dyn_D'] = lambda nm: [Field(nm, D, 'dynamic')]
    K['dyn_D8'] = lambda nm: [Field(nm, D8, 'dynamic')]
    K['bytes_fix'] = lambda nm: [Field(nm, u8, ('fixed', 3), bytes=True)]
    K['bytes_dyn'] = lambda nm: [Field(nm, u8, 'dynamic', bytes=True)]
    K['bytes_lim'] = lambda nm: [Field(nm, u8, ('limited', 5), bytes=True)]
    K['bytes_gre'] = lambda nm: [Field(nm, u8, 'greedy', bytes=True)]
    K['bytes_ext'] = lambda nm: [Field(nm + '_n', u8), Field(nm, u8, ('ext', nm + '_n'), bytes=True)]
    K['plain_G'] = lambda nm: [Field(nm, G)]
    return K


KINDS = _k()


def is_last_only(kind):
    return kind.startswith('gre_') or kind in ('bytes_gre', 'plain_G')


_SANDWICH = {}


def sandwich(kind, pre, post):
    name = 'T_%s_%s_%s' % (kind, pre.name if pre else 'x', post.name if post else 'x')
    if name not in _SANDWICH:
        fs = ([Field('pre', pre)] if pre else []) + KINDS[kind]('k') + ([Field('post', post)] if post else [])
        _SANDWICH[name] = Struct(name, fs)
    return _SANDWICH[name]


_CURATED = []


def curated():
    """shapes named in the property texts / known-tricky corners (one instance per process: shapes are identities)"""
    if not _CURATED:
        _CURATED.extend(_curated())
    return list(_CURATED)


def _curated():
    C = []
    C.append(Struct('C_opt8_odd', [Field('a', u8), Field('b', u8, 'optional')]))                       # F01
    C.append(Struct('C_opt16_odd', [Field('a', u8), Field('b', u16, 'optional'), Field('c', u8)]))
    C.append(Struct('C_blk_nested_dyn', [Field('d', D), Field('a', u8), Field('b', u64)]))           # F03
    C.append(Struct('C_dyn_end_opt', [Field('x', DO), Field('t', u8)]))
    C.append(Struct('C_fixed_after_dyn', [Field('a', u64, 'dynamic'), Field('b', u8)]))              # F04
    C.append(Struct('C_two_dyn_decr', [Field('a', u64, 'dynamic'), Field('b', u16, 'dynamic'), Field('c', u8)]))
    C.append(Struct('C_opt_u32_u64', [Field('x', u32, 'optional'), Field('y', u64)]))                # F15
    C.append(Struct('C_arr_optstruct', [Field('e', Struct('OY', [Field('x', u32, 'optional'), Field('y', u64)]), ('fixed', 2))]))
    C.append(Struct('C_lim_comp', [Field('l', S8, ('limited', 2)), Field('t', u8)]))
    C.append(Struct('C_sizer_shared', [Field('n', u8), Field('a', u8, ('ext', 'n')), Field('t', u8), Field('b', u32, ('ext', 'n'))]))
    C.append(Struct('C_many_dyn', [Field('a', u8, 'dynamic'), Field('b', u8), Field('c', u32), Field('d', u8, 'dynamic'),
                                   Field('e', u8), Field('f', u64)]))
    C.append(Struct('C_dynD_then', [Field('a', D, 'dynamic'), Field('b', u8), Field('c', u8, 'dynamic'), Field('d', u8)]))  # F14 shape
    C.append(Struct('C_union_opt_arm', [Field('u', UO), Field('t', u8)]))
    C.append(Struct('C_opt_enum', [Field('e', E1, 'optional')]))                                      # F02
    C.append(Struct('C_opt_u64_only', [Field('x', u64, 'optional')]))                                 # F07
    C.append(Struct('C_nested_deep', [Field('a', u8), Field('s', Struct('N1', [Field('x', u8), Field('s', S8)])), Field('b', u16)]))
    C.append(Struct('C_dyn_struct_mid', [Field('a', u8), Field('d', D8), Field('b', u16), Field('c', u8)]))
    C.append(Struct('C_i_mix', [Field('a', i8), Field('b', i16), Field('c', i32), Field('d', i64)]))
    C.append(Struct('C_greedy_S2', [Field('n', u16), Field('g', S2, 'greedy')]))
    C.append(Struct('C_last_G', [Field('a', u32), Field('g', G)]))
    C.append(Struct('C_blk_narrow_opt', [Field('n', u16), Field('a', u8, ('ext', 'n')), Field('x', u8), Field('y', u16, 'optional'), Field('z', u8)]))
    C.append(Struct('C_blk_opt_first', [Field('n', u32), Field('a', u8, ('ext', 'n')), Field('x', u8, 'optional'), Field('y', u64)]))
    C.append(Struct('C_union12_then', [Field('u', U12), Field('t', u64)]))
    C.append(Struct('C_last_G8', [Field('a', u64), Field('b', u8), Field('g', Struct('G16', [Field('h', u16), Field('g', u8, 'greedy')]))]))
    # 64-bit counters: count * element size can wrap in size_t arithmetic
    C.append(Struct('C_ext64_u16', [Field('n', u64), Field('a', u16, ('ext', 'n')), Field('t', u8)]))
    C.append(Struct('C_ext64_S8', [Field('n', u64), Field('a', S8, ('ext', 'n'))]))
    C.append(Struct('C_exti64_u32', [Field('n', i64), Field('a', u32, ('ext', 'n')), Field('t', u16)]))
    # counters that live in a block after the first dynamic array and size arrays of later blocks
    C.append(Struct('C_sizer_midblock', [Field('na', u32), Field('a', u8, ('ext', 'na')), Field('nc', u32), Field('nb', u32),
                                         Field('b', u16, ('ext', 'nb')), Field('c', u32, ('ext', 'nc'))]))
    return C


def quick_family():
    out = []
    for k in sorted(KINDS):
        out.append(sandwich(k, u8, None))
        if not is_last_only(k):
            out.append(sandwich(k, u8, u64))
    return out + curated()


def rich_family():
    """quick family plus the remaining alignment combinations of the neighbours (cheap value-symbolic checks use it)"""
    out = quick_family()
    seen = set(s.name for s in out)
    for k in sorted(KINDS):
        for pre, post in ((None, u8), (u8, u8), (u8, u32), (u16, u16), (None, None)):
            if post is not None and is_last_only(k):
                continue
            s = sandwich(k, pre, post)
            if s.name not in seen:
                seen.add(s.name)
                out.append(s)
    return out


def thorough_family():
    out = []
    seen = set()
    for k in sorted(KINDS):
        for pre in (None, u8, u16):
            for post in (None, u8, u32, u64):
                if post is not None and is_last_only(k):
                    continue
                s = sandwich(k, pre, post)
                if s.name not in seen:
                    seen.add(s.name)
                    out.append(s)
    # ordered pairs of variable-size kinds with u8 separators
    var = [k for k in sorted(KINDS) if any(it['var'] for it in struct_items(Struct('x', KINDS[k]('k')))) and not is_last_only(k)]
    for k1, k2 in itertools.product(var, var):
        fs = [Field('pre', u8)] + KINDS[k1]('k') + [Field('mid', u8)] + KINDS[k2]('m') + [Field('post', u8)]
        out.append(Struct('P_%s__%s' % (k1, k2), fs))
    # nesting of quick structs as member / array element
    for s in quick_family():
        _, _, st = type_layout(s)
        if st == UNLIMITED:
            continue
        out.append(Struct('N_' + s.name, [Field('pre', u8), Field('in_', s), Field('post', u16)]))
        if st == FIXED:
            out.append(Struct('A_' + s.name, [Field('pre', u8), Field('arr', s, ('fixed', 2)), Field('post', u8)]))
            out.append(Struct('L_' + s.name, [Field('pre', u8), Field('arr', s, 'dynamic'), Field('post', u8)]))
    return out + curated()


def family(tier):
    fam = {'quick': quick_family, 'rich': rich_family, 'thorough': thorough_family}[tier]()
    if tier == 'thorough':
        # the thorough tier runs under a wall-time budget: VERIF_SEED decides where in the (fixed) list exploration starts
        import os
        try:
            seed = int(os.environ.get('VERIF_SEED', '0') or 0)
        except ValueError:
            seed = 0
        k = (seed * 977) % len(fam)
        fam = fam[k:] + fam[:k]
        # everything the quick tier looks at comes first (thorough dominates quick whatever the budget), then a window
        # of the larger family that VERIF_SEED moves; VF_THOROUGH_EXTRA widens the window (0 = the whole family)
        first = rich_family()
        have = set(s.name for s in first)
        rest = [s for s in fam if s.name not in have]
        extra = int(os.environ.get('VF_THOROUGH_EXTRA', '300') or 0)
        fam = first + (rest[:extra] if extra > 0 else rest)
    return fam


# ---------------------------------------------------------------- predicates

def walk_types(t, acc=None):
    acc = acc if acc is not None else []
    t0 = t
    t = strip(t)
    if t in acc:
        return acc
    acc.append(t)
    if isinstance(t, Struct):
        for f in t.fields:
            if not f.bytes:
                walk_types(f.type, acc)
    elif isinstance(t, Union):
        for _, _, a in t.arms:
            walk_types(a, acc)
    return acc


def has_float(t):
    return any(isinstance(x, Scalar) and x.flt for x in walk_types(t))


def has_greedy(t):
    return type_layout(t)[2] == UNLIMITED


def cpp_full_eligible(t):
    """the C++ full generator refuses more than one array per sizer"""
    for x in walk_types(t):
        if isinstance(x, Struct):
            sizers = [f.form[1] for f in x.fields if isinstance(f.form, tuple) and f.form[0] == 'ext']
            if len(sizers) != len(set(sizers)):
                return False
    return True
