"""C10 / C11 harness library: one API step from an arbitrary valid message state, against a plain reference model.

The schema is compiled by the real prophyc; messages are built and observed through the public API only.
Outcome classification of an operation:  ('ok',) | ('rej', ExcName) | ('esc', ExcName)
  rej = ProphyError, or IndexError / ValueError (list-style: bad index, missing element, extended-slice size mismatch)
  esc = any other exception type escaping the API (never acceptable)
"""
import os

API_SCHEMA = '''
enum E0 { E0_A = 0, E0_B = 5, E0_C = 0xFFFFFFFF };
struct S2 { u8 a; u16 b; };
union U4 { 1: u8 x; 2: u16 y; 3: S2 z; };
struct MS { u8 a; i16 b; u64 c; E0 e; bytes bf[3]; bytes bl<5>; bytes bd<>; };
struct MO { u16* ou; S2* os; U4* ov; };
struct MU { U4 u; u8 t; };
struct MA { u8 fa[3]; u8 la<3>; u16 da<>; };
struct MC { S2 lc<2>; S2 dc<>; S2 fc[2]; };
struct MX { u8 n; u8 xa<@n>; u16 xb<@n>; };
struct MF { float f; double d; };
'''

E0_VALUES = {0: 'E0_A', 5: 'E0_B', 0xFFFFFFFF: 'E0_C'}
E0_NAMES = {v: k for k, v in E0_VALUES.items()}
RANGES = {'u8': (0, 255), 'i16': (-32768, 32767), 'u64': (0, 2 ** 64 - 1), 'u16': (0, 65535)}

_GEN = {}


def gen():
    return _GEN['mod']


def load(path):
    from . import pyharness as H
    _GEN['mod'] = H.load_module(path)
    return _GEN['mod']


class Rej(Exception):
    """the reference model rejects the operation"""


def attempt(fn):
    import prophy
    try:
        fn()
    except prophy.ProphyError:
        return ('rej', 'ProphyError')
    except (IndexError, ValueError) as e:
        return ('rej', type(e).__name__)
    except Rej:
        return ('rej', 'Rej')
    except Exception as e:
        return ('esc', type(e).__name__)
    return ('ok',)


def enc(msg):
    """observation: the little-endian encoding, or the admitted refusal"""
    import prophy
    try:
        return list(msg.encode('<'))
    except prophy.ProphyError:
        return 'ProphyError'


def value(kind, iv):
    """an argument of 'any type': kind 0 -> the (symbolic) int iv, else a concrete sample of another type"""
    if kind == 0:
        return iv
    for k, v in ((1, True), (2, 'E0_B'), (3, 'nope'), (4, b'ab'), (5, 1.5), (6, None), (8, 'E0_A'), (9, 'E0_C')):
        if kind == k:
            return v
    return [1]


def is_int(v):
    return isinstance(v, int)


def chk_int(v, tname):
    lo, hi = RANGES[tname]
    if not is_int(v):
        raise Rej()
    if not (lo <= v <= hi):
        raise Rej()
    return v


def chk_enum(v):
    if isinstance(v, str):
        if v not in E0_NAMES:
            raise Rej()
        return E0_NAMES[v]
    if is_int(v):
        for k in (0, 5, 0xFFFFFFFF):
            if v == k:
                return k
        raise Rej()
    raise Rej()


def chk_bytes(v, size, bound):
    if not isinstance(v, bytes):
        raise Rej()
    if size and len(v) > size:
        raise Rej()
    if size and not bound:
        return v + b'\x00' * (size - len(v))
    return v


_LAST = {}


def finish(r_impl, r_ref, obs_after, obs_before, model_obs):
    """the C10 assertion for one step"""
    _LAST['why'] = None
    if r_impl[0] == 'esc':
        _LAST['why'] = 'escaped:' + r_impl[1]
        return False
    if r_impl[0] == 'rej':
        if obs_after != obs_before:
            _LAST['why'] = 'rejected-but-state-changed'
            return False                                    # rejected -> message unchanged
        if r_ref[0] == 'ok':
            _LAST['why'] = 'rejected-what-the-model-accepts'
            return False                                    # the reference model performs the operation: states differ
        return True
    if r_ref[0] != 'ok':
        _LAST['why'] = 'accepted-what-the-model-forbids'
        return False                                        # accepted something the reference model forbids
    if obs_after[-1] == 'ProphyError' and not obs_after[-2]:
        _LAST['why'] = 'reachable-state-cannot-be-encoded'
        return False                                        # reachable state that cannot be encoded (not the sizer case)
    if obs_after[:-2] != model_obs:
        _LAST['why'] = 'state-differs-from-model'
    return obs_after[:-2] == model_obs


def explain(fn, rerun):
    """structural fingerprint of a failing step: operation family + failure kind"""
    import re
    _LAST['why'] = None
    exc = None
    try:
        rerun()
    except Exception as e:   # noqa
        exc = type(e).__name__
    fam = re.sub(r'(_m?\d+)+$', '', fn)
    return dict(check='api-step', op=fam, kind=_LAST.get('why') or ('harness-exception:%s' % exc if exc else 'assertion'))


# ------------------------------------------------------------------------------------------------ MS: scalars / enum / bytes

def _b(x):
    """an unset bound/greedy bytes field reads as '' (pinned by the repository's tests): normalised to b''"""
    return b'' if isinstance(x, str) and x == '' else bytes(x)


def obs_MS(m):
    return (m.a, m.b, m.c, int(m.e), _b(m.bf), _b(m.bl), _b(m.bd), False, enc(m))


def step_scalar(field, a0, b0, c0, e0, kind, iv):
    """assignment of an arbitrary value to a scalar/enum field of MS, from an arbitrary valid state"""
    m = gen().MS()
    m.a, m.b, m.c = a0, b0, c0
    ev = [0, 5, 0xFFFFFFFF][e0]
    m.e = ev
    ref = dict(a=a0, b=b0, c=c0, e=ev)
    before = obs_MS(m)
    v = value(kind, iv)
    r_impl = attempt(lambda: setattr(m, field, v))

    def model():
        if field == 'e':
            ref['e'] = chk_enum(v)
        else:
            ref[field] = chk_int(v, {'a': 'u8', 'b': 'i16', 'c': 'u64'}[field])
    r_ref = attempt(model)
    after = obs_MS(m)
    return finish(r_impl, r_ref, after, before, (ref['a'], ref['b'], ref['c'], ref['e'], b'\x00\x00\x00', b'', b''))


def step_bytes(field, n, b0, b1, b2, b3, b4, b5, kind):
    """assignment to a bytes field (fixed[3], limited<5>, dynamic) of a byte string of length n (symbolic content) or a non-bytes"""
    from . import pyharness as H
    m = gen().MS()
    before = obs_MS(m)
    if kind == 0:
        v = H.symbytes([b0, b1, b2, b3, b4, b5][:n])
    else:
        v = value(kind, 7)
    r_impl = attempt(lambda: setattr(m, field, v))
    ref = dict(bf=b'\x00\x00\x00', bl=b'', bd=b'')

    def model():
        ref[field] = chk_bytes(v, {'bf': 3, 'bl': 5, 'bd': 0}[field], field != 'bf')
    r_ref = attempt(model)
    after = obs_MS(m)
    return finish(r_impl, r_ref, after, before, (0, 0, 0, 0, bytes(ref['bf']), bytes(ref['bl']), bytes(ref['bd'])))


# ------------------------------------------------------------------------------------------------ MO: optionals

def _obs_u4(u):
    d = u.discriminator
    if d == 1:
        return (1, u.x)
    if d == 2:
        return (2, u.y)
    return (3, u.z.a, u.z.b)


def obs_MO(m):
    os_ = None if m.os is None else (m.os.a, m.os.b)
    ov = None if m.ov is None else _obs_u4(m.ov)
    return (m.ou, os_, ov, False, enc(m))


def step_optional(op, p_ou, ou0, p_os, sa0, sb0, kind, iv):
    """set / clear of optional scalar and optional composite from an arbitrary valid state.
    op: 0 ou=value  1 os=value(True/None/other)  2 write os.a (if present)  3 ov=value"""
    m = gen().MO()
    ref = dict(ou=None, os=None, ov=None)
    if p_ou:
        m.ou = ou0
        ref['ou'] = ou0
    if p_os:
        m.os = True
        m.os.a, m.os.b = sa0, sb0
        ref['os'] = (sa0, sb0)
    before = obs_MO(m)
    v = value(kind, iv)
    if op == 0:
        r_impl = attempt(lambda: setattr(m, 'ou', v))

        def model():
            ref['ou'] = None if v is None else chk_int(v, 'u16')
    elif op == 1:
        r_impl = attempt(lambda: setattr(m, 'os', v))

        def model():
            if v is True:
                ref['os'] = (0, 0)            # enabling yields a fresh default element (also when already present)
            elif v is None:
                ref['os'] = None
            else:
                raise Rej()
    elif op == 2:
        def impl():
            m.os.a = v
        r_impl = attempt(impl)
        if not p_os:
            # an absent optional reads as None (documented): `None.a = v` is Python's refusal; state must be unchanged
            return r_impl[0] != 'ok' and obs_MO(m) == before

        def model():
            ref['os'] = (chk_int(v, 'u8'), ref['os'][1])
    else:
        r_impl = attempt(lambda: setattr(m, 'ov', v))

        def model():
            if v is True:
                ref['ov'] = (1, 0)
            elif v is None:
                ref['ov'] = None
            else:
                raise Rej()
    r_ref = attempt(model)
    after = obs_MO(m)
    return finish(r_impl, r_ref, after, before, (ref['ou'], ref['os'], ref['ov']))


def hist_optional(sa0, sb0, again):
    """history: enable, write, clear, enable -> the re-enabled composite must be fresh (defaults)"""
    m = gen().MO()
    m.os = True
    m.os.a, m.os.b = sa0, sb0
    m.os = None
    if m.os is not None:
        return False
    m.os = True
    if again:
        m.os = True
    e = enc(m)
    return (m.os.a, m.os.b) == (0, 0) and isinstance(e, list) and e[8:12] == [1, 0, 0, 0] and e[12:16] == [0, 0, 0, 0]


# ------------------------------------------------------------------------------------------------ MU: union

def obs_MU(m):
    import prophy
    u = m.u
    vis = []
    for name in ('x', 'y', 'z'):
        try:
            x = getattr(u, name)
            vis.append(name)
        except prophy.ProphyError:
            pass
    return (_obs_u4(u), tuple(vis), m.t, False, enc(m))


def _mk_union(arm0, x0, y0, za0, zb0):
    m = gen().MU()
    if arm0 == 0:
        m.u.discriminator = 1
        m.u.x = x0
        ref = (1, x0)
    elif arm0 == 1:
        m.u.discriminator = 2
        m.u.y = y0
        ref = (2, y0)
    else:
        m.u.discriminator = 3
        m.u.z.a, m.u.z.b = za0, zb0
        ref = (3, za0, zb0)
    return m, ref


def _arm_names(ref):
    return ({1: ('x',), 2: ('y',), 3: ('z',)}[ref[0]])


DISC_ARGS = [1, 2, 3, 'x', 'y', 'z', 0, 4, 'w', None, 1.5]


def step_union(op, arm0, x0, y0, za0, zb0, dsel, kind, iv):
    """op 0: discriminator = DISC_ARGS[dsel];  op 1: write arm x;  2: write arm y;  3: write z.a;  4: assign z"""
    m, ref = _mk_union(arm0, x0, y0, za0, zb0)
    before = obs_MU(m)
    v = value(kind, iv)
    box = [ref]
    if op == 0:
        d = DISC_ARGS[dsel]
        r_impl = attempt(lambda: setattr(m.u, 'discriminator', d))

        def model():
            tgt = {1: 1, 2: 2, 3: 3, 'x': 1, 'y': 2, 'z': 3}.get(d) if isinstance(d, (int, str)) and not isinstance(d, bool) else None
            if tgt is None:
                raise Rej()
            if tgt != box[0][0]:
                box[0] = {1: (1, 0), 2: (2, 0), 3: (3, 0, 0)}[tgt]     # switching resets to defaults
    elif op in (1, 2):
        name, tn, disc = ('x', 'u8', 1) if op == 1 else ('y', 'u16', 2)
        r_impl = attempt(lambda: setattr(m.u, name, v))

        def model():
            if box[0][0] != disc:
                raise Rej()
            box[0] = (disc, chk_int(v, tn))
    elif op == 3:
        def impl():
            m.u.z.a = v
        r_impl = attempt(impl)

        def model():
            if box[0][0] != 3:
                raise Rej()
            box[0] = (3, chk_int(v, 'u8'), box[0][2])
    else:
        r_impl = attempt(lambda: setattr(m.u, 'z', v))

        def model():
            raise Rej()
    r_ref = attempt(model)
    after = obs_MU(m)
    return finish(r_impl, r_ref, after, before, (box[0], _arm_names(box[0]), 0))


def hist_union(arm_a, arm_b, x0, y0, za0, zb0):
    """history: select arm_a and write it, switch to arm_b, switch back -> arm_a must read as default again"""
    m, ref = _mk_union(arm_a, x0, y0, za0, zb0)
    if arm_b == arm_a:
        return True
    m.u.discriminator = arm_b + 1
    m.u.discriminator = arm_a + 1
    got = _obs_u4(m.u)
    want = {0: (1, 0), 1: (2, 0), 2: (3, 0, 0)}[arm_a]
    e = enc(m)
    return got == want and isinstance(e, list) and e[4:8] == [0, 0, 0, 0]


# ------------------------------------------------------------------------------------------------ MA: scalar arrays

def obs_MA(m):
    return (list(m.fa), list(m.la), list(m.da), len(m.fa), len(m.la), len(m.da), False, enc(m))


def _mk_arr(which, n, e0, e1, e2):
    m = gen().MA()
    init = [e0, e1, e2]
    ref = dict(fa=[0, 0, 0], la=[], da=[])
    if which == 'fa':
        for i in range(3):
            m.fa[i] = init[i]
        ref['fa'] = list(init)
    else:
        arr = getattr(m, which)
        for i in range(n):
            arr.append(init[i])
        ref[which] = init[:n]
    return m, ref


def _idx(i):
    return i


def _lst(n, v0, v1, v2, as_iter):
    lst = [v0, v1, v2][:n]
    if as_iter == 1:
        return tuple(lst)
    if as_iter == 2:
        return iter(lst)
    return lst


LIMITS = {'fa': 3, 'la': 3, 'da': 0}
ETYPE = {'fa': 'u8', 'la': 'u8', 'da': 'u16'}


def step_array(which, op, n, e0, e1, e2, i, j, st, kind, iv, vn, v0, v1, v2, as_iter):
    """one list-style operation on a scalar array of MA (which: fa fixed[3], la limited<3>, da dynamic)
    op: 0 append 1 insert 2 setitem 3 delitem 4 setslice 5 delslice 6 extend 7 remove 8 stepped setslice
    i, j: index / slice bounds (None allowed for slices via sentinel 99), st: step"""
    m, ref = _mk_arr(which, n, e0, e1, e2)
    arr = getattr(m, which)
    r = ref[which]
    lim = LIMITS[which]
    tn = ETYPE[which]
    before = obs_MA(m)
    v = value(kind, iv)
    lo = None if i == 99 else i
    hi = None if j == 99 else j
    fixed = which == 'fa'
    vals_impl = _lst(vn, v0, v1, v2, as_iter)
    vals_ref = [v0, v1, v2][:vn]

    def over(k):
        return lim and k > lim

    if op == 0:
        r_impl = attempt(lambda: arr.append(v))

        def model():
            if fixed:
                raise Rej()
            x = chk_int(v, tn)
            if over(len(r) + 1):
                raise Rej()
            r.append(x)
    elif op == 1:
        r_impl = attempt(lambda: arr.insert(i, v))

        def model():
            if fixed:
                raise Rej()
            x = chk_int(v, tn)
            if over(len(r) + 1):
                raise Rej()
            r.insert(i, x)
    elif op == 2:
        def impl():
            arr[i] = v
        r_impl = attempt(impl)

        def model():
            x = chk_int(v, tn)
            r[i] = x
    elif op == 3:
        def impl():
            del arr[i]
        r_impl = attempt(impl)

        def model():
            if fixed:
                raise Rej()
            del r[i]
    elif op == 4:
        def impl():
            arr[lo:hi] = vals_impl
        r_impl = attempt(impl)

        def model():
            xs = [chk_int(x, tn) for x in vals_ref]
            tmp = list(r)
            tmp[lo:hi] = xs
            if over(len(tmp)) or (fixed and len(tmp) != 3):
                raise Rej()
            r[:] = tmp
    elif op == 5:
        def impl():
            del arr[lo:hi]
        r_impl = attempt(impl)

        def model():
            if fixed:
                raise Rej()
            del r[lo:hi]
    elif op == 6:
        r_impl = attempt(lambda: arr.extend(vals_impl))

        def model():
            if fixed:
                raise Rej()
            xs = [chk_int(x, tn) for x in vals_ref]
            if over(len(r) + len(xs)):
                raise Rej()
            r.extend(xs)
    elif op == 7:
        r_impl = attempt(lambda: arr.remove(v))

        def model():
            if fixed:
                raise Rej()
            r.remove(v)
    else:
        def impl():
            arr[lo:hi:st] = vals_impl
        r_impl = attempt(impl)

        def model():
            xs = [chk_int(x, tn) for x in vals_ref]
            tmp = list(r)
            tmp[lo:hi:st] = xs                      # list semantics: ValueError unless sizes match (step != 1)
            if over(len(tmp)) or (fixed and len(tmp) != 3):
                raise Rej()
            r[:] = tmp
    if fixed and op in (0, 1, 3, 5, 6, 7) and r_impl[0] == 'esc' and r_impl[1] == 'AttributeError':
        # a fixed array simply has no append/insert/extend/remove/del: AttributeError/TypeError on a missing method is
        # Python's own rejection of a non-existent operation, not an API operation of the property's list
        return obs_MA(m) == before
    if fixed and op in (3, 5) and r_impl[0] == 'esc' and r_impl[1] == 'TypeError':
        return obs_MA(m) == before
    r_ref = attempt(model)
    after = obs_MA(m)
    return finish(r_impl, r_ref, after, before,
                  (ref['fa'], ref['la'], ref['da'], len(ref['fa']), len(ref['la']), len(ref['da'])))


# ------------------------------------------------------------------------------------------------ MC: composite arrays

def _obs_s2list(arr):
    return [(x.a, x.b) for x in arr]


def obs_MC(m):
    return (_obs_s2list(m.lc), _obs_s2list(m.dc), _obs_s2list(m.fc), len(m.lc), len(m.dc), False, enc(m))


def _mk_carr(which, n, a0, b0, a1, b1):
    m = gen().MC()
    init = [(a0, b0), (a1, b1)]
    ref = dict(lc=[], dc=[], fc=[(0, 0), (0, 0)])
    if which == 'fc':
        for k in range(2):
            m.fc[k].a, m.fc[k].b = init[k]
        ref['fc'] = list(init)
    else:
        arr = getattr(m, which)
        for k in range(n):
            e = arr.add()
            e.a, e.b = init[k]
        ref[which] = init[:n]
    return m, ref


def step_carray(which, op, n, a0, b0, a1, b1, i, j, kind, iv, kb, ivb, cnt):
    """op: 0 add(a=v, b=w)  1 add()  2 extend([S2...]) cnt elements  3 del [i]  4 del [i:j]  5 element write [i].a = v
    6 assignment to the array attribute  7 setitem [i] = S2()"""
    g = gen()
    m, ref = _mk_carr(which, n, a0, b0, a1, b1)
    arr = getattr(m, which)
    r = ref[which]
    lim = {'lc': 2, 'dc': 0, 'fc': 2}[which]
    fixed = which == 'fc'
    before = obs_MC(m)
    v = value(kind, iv)
    w = value(kb, ivb)
    lo = None if i == 99 else i
    hi = None if j == 99 else j
    if op == 0:
        r_impl = attempt(lambda: arr.add(a=v, b=w))

        def model():
            if fixed:
                raise Rej()
            x, y = chk_int(v, 'u8'), chk_int(w, 'u16')
            if lim and len(r) + 1 > lim:
                raise Rej()
            r.append((x, y))
    elif op == 1:
        r_impl = attempt(lambda: arr.add())

        def model():
            if fixed or (lim and len(r) + 1 > lim):
                raise Rej()
            r.append((0, 0))
    elif op == 2:
        src = []
        for k in range(cnt):
            s = g.S2()
            s.a, s.b = (a0, b1) if k == 0 else (a1, b0)
            src.append(s)
        r_impl = attempt(lambda: arr.extend(src))

        def model():
            if fixed or (lim and len(r) + cnt > lim):
                raise Rej()
            for k in range(cnt):
                r.append((a0, b1) if k == 0 else (a1, b0))
    elif op == 3:
        def impl():
            del arr[i]
        r_impl = attempt(impl)

        def model():
            if fixed:
                raise Rej()
            del r[i]
    elif op == 4:
        def impl():
            del arr[lo:hi]
        r_impl = attempt(impl)

        def model():
            if fixed:
                raise Rej()
            del r[lo:hi]
    elif op == 5:
        def impl():
            arr[i].a = v
        r_impl = attempt(impl)

        def model():
            old = r[i]                    # IndexError for a bad index
            r[i] = (chk_int(v, 'u8'), old[1])
    elif op == 6:
        r_impl = attempt(lambda: setattr(m, which, [g.S2()]))

        def model():
            raise Rej()
    else:
        def impl():
            arr[i] = g.S2()
        r_impl = attempt(impl)

        def model():
            raise Rej()
    if r_impl[0] == 'esc' and r_impl[1] in ('AttributeError', 'TypeError') and ((fixed and op in (0, 1, 2, 3, 4)) or op == 7):
        return obs_MC(m) == before           # operation does not exist on this array kind (Python's own refusal)
    r_ref = attempt(model)
    after = obs_MC(m)
    return finish(r_impl, r_ref, after, before, (ref['lc'], ref['dc'], ref['fc'], len(ref['lc']), len(ref['dc'])))


# ------------------------------------------------------------------------------------------------ MX: arrays sharing a sizer

def step_sizer(na, nb, e0, e1, kind, iv):
    """two arrays bound to one sizer: any lengths are reachable; encode refuses exactly the unequal ones; the sizer
    attribute itself cannot be assigned"""
    import prophy
    m = gen().MX()
    for k in range(na):
        m.xa.append(e0)
    for k in range(nb):
        m.xb.append(e1)
    v = value(kind, iv)
    r = attempt(lambda: setattr(m, 'n', v))
    if r[0] == 'ok':
        return False                          # counters are derived, never assignable
    if r[0] == 'esc' and r[1] != 'AttributeError':
        return False
    e = enc(m)
    if na != nb:
        return e == 'ProphyError'
    return isinstance(e, list) and e[0] == na and len(e) >= 1 + na + 2 * nb


# ------------------------------------------------------------------------------------------------ C11: copy_from

def c11_scalars(a0, b0, c0, e0, n, y0, y1, y2, a1, b1, c1, e1, mutate_src, fld, nv):
    """MS: b.copy_from(a) -> equal + same encoding; then mutate one side, the other side is untouched"""
    from . import pyharness as H
    g = gen()
    a, b = g.MS(), g.MS()
    a.a, a.b, a.c, a.e = a0, b0, c0, [0, 5, 0xFFFFFFFF][e0]
    a.bd = H.symbytes([y0, y1, y2][:n])
    a.bl = H.symbytes([y2, y1][:min(n, 2)])
    b.a, b.b, b.c, b.e = a1, b1, c1, [0, 5, 0xFFFFFFFF][e1]
    b.bd = b'zz'
    snap_a = obs_MS(a)
    b.copy_from(a)
    if obs_MS(a) != snap_a or obs_MS(b) != snap_a:
        return False
    tgt, other = (a, b) if mutate_src else (b, a)
    if fld == 0:
        tgt.a = nv % 256
    elif fld == 1:
        tgt.bd = snap_a[6] + b'!'
    else:
        tgt.e = 5 if snap_a[3] != 5 else 0
    return obs_MS(other) == snap_a and obs_MS(tgt) != snap_a


def c11_optional_union(p_ou, ou0, p_os, sa0, sb0, p_ov, arm, uv, q_ou, q_os, q_ov, mutate_src, what, nv):
    """MO: optional scalar / composite / union, present or absent on both sides"""
    g = gen()
    a, b = g.MO(), g.MO()
    if p_ou:
        a.ou = ou0
    if p_os:
        a.os = True
        a.os.a, a.os.b = sa0, sb0
    if p_ov:
        a.ov = True
        a.ov.discriminator = arm + 1
        if arm == 0:
            a.ov.x = uv % 256
        elif arm == 1:
            a.ov.y = uv
        else:
            a.ov.z.b = uv
    if q_ou:
        b.ou = 7
    if q_os:
        b.os = True
        b.os.a = 9
    if q_ov:
        b.ov = True
        b.ov.discriminator = 2
        b.ov.y = 77
    snap = obs_MO(a)
    b.copy_from(a)
    if obs_MO(a) != snap or obs_MO(b) != snap:
        return False
    tgt, other = (a, b) if mutate_src else (b, a)
    if what == 0:
        if tgt.os is None:
            return True
        tgt.os.b = (sb0 + 1) % 65536
    elif what == 1:
        if tgt.ov is None:
            return True
        if arm == 2:
            tgt.ov.z.a = (nv % 255) + 1
        else:
            tgt.ov.discriminator = 3
            tgt.ov.z.a = (nv % 255) + 1
    else:
        tgt.ou = None if tgt.ou is not None else 5
    return obs_MO(other) == snap and obs_MO(tgt) != snap


def c11_union_struct(arm0, x0, y0, za0, zb0, arm1, mutate_src, nv):
    """MU: struct holding a union, per arm; later mutation of the union on one side"""
    a, _ = _mk_union(arm0, x0, y0, za0, zb0)
    b, _ = _mk_union(arm1, 1, 2, 3, 4)
    a.t = 9
    snap = obs_MU(a)
    b.copy_from(a)
    if obs_MU(a) != snap or obs_MU(b) != snap:
        return False
    tgt, other = (a, b) if mutate_src else (b, a)
    if arm0 == 2:
        tgt.u.z.b = (zb0 + 1 + nv % 7) % 65536
    elif arm0 == 0:
        tgt.u.x = (x0 + 1) % 256
    else:
        tgt.u.discriminator = 1
        tgt.u.x = 200
    return obs_MU(other) == snap and obs_MU(tgt) != snap


def c11_arrays(n_la, n_da, e0, e1, e2, m_la, m_da, mutate_src, what):
    """MA: fixed / limited / dynamic scalar arrays, destination pre-filled differently"""
    g = gen()
    a, _ = _mk_arr('la', n_la, e0, e1, e2)
    for k in range(n_da):
        a.da.append([e2, e1, e0][k] * 3)
    a.fa[0], a.fa[2] = e1, e0
    b = g.MA()
    for k in range(m_la):
        b.la.append(9)
    for k in range(m_da):
        b.da.append(11)
    b.fa[1] = 1
    snap = obs_MA(a)
    b.copy_from(a)
    if obs_MA(a) != snap or obs_MA(b) != snap:
        return False
    tgt, other = (a, b) if mutate_src else (b, a)
    if what == 0:
        tgt.fa[1] = (snap[0][1] + 1) % 256
    elif what == 1:
        tgt.da.append(1)
    else:
        if len(tgt.la):
            del tgt.la[0]
        else:
            tgt.la.append(3)
    return obs_MA(other) == snap and obs_MA(tgt) != snap


def c11_carrays(n_lc, n_dc, a0, b0, a1, b1, m_lc, m_dc, mutate_src, what, via_extend):
    """MC: limited / dynamic / fixed composite arrays; also elements copied by extend()"""
    g = gen()
    a, _ = _mk_carr('lc', n_lc, a0, b0, a1, b1)
    for k in range(n_dc):
        e = a.dc.add()
        e.a, e.b = (a1, b0) if k == 0 else (a0, b1)
    a.fc[1].a, a.fc[1].b = a0, b1
    b = g.MC()
    for k in range(m_lc):
        b.lc.add().a = 5
    for k in range(m_dc):
        b.dc.add().b = 6
    b.fc[0].a = 1
    snap = obs_MC(a)
    if via_extend:
        # elements copied into composite arrays by extend(): later mutation of either side leaves the other untouched
        c = g.MC()
        c.dc.extend(a.dc[:])
        c.lc.extend(a.lc[:])
        if _obs_s2list(c.dc) != snap[1] or _obs_s2list(c.lc) != snap[0] or obs_MC(a) != snap:
            return False
        tgt, other = (a, c) if mutate_src else (c, a)
        osnap = obs_MC(other)
        if what == 0 and len(tgt.dc):
            tgt.dc[0].a = (tgt.dc[0].a + 1) % 256
        elif what == 1 and len(tgt.lc):
            tgt.lc[len(tgt.lc) - 1].b = (tgt.lc[len(tgt.lc) - 1].b + 1) % 65536
        else:
            tgt.dc.add()
        return obs_MC(other) == osnap
    b.copy_from(a)
    if obs_MC(a) != snap or obs_MC(b) != snap:
        return False
    tgt, other = (a, b) if mutate_src else (b, a)
    if what == 0:
        tgt.fc[1].b = (snap[2][1][1] + 1) % 65536
    elif what == 1:
        if len(tgt.dc):
            tgt.dc[0].a = (tgt.dc[0].a + 1) % 256
        else:
            tgt.dc.add()
    else:
        if len(tgt.lc):
            tgt.lc[0].b = (tgt.lc[0].b + 1) % 65536
        else:
            tgt.lc.add()
    return obs_MC(other) == snap and obs_MC(tgt) != snap
