"""C02 at shifted array counters (prophy.array(..., bound=, shift=) / prophy.bytes(..., shift=)): the counter on the wire
is count + shift; every count whose wire value is <= 65536 (the decoder's array guard) and fits the counter type is
written by the real counter field and read back unchanged.  Classes are built through the public prophy API."""
from vf import pyharness as H
H.setup()
import prophy    # noqa: E402


class S2(prophy.with_metaclass(prophy.struct_generator, prophy.struct)):
    _descriptor = [('n', prophy.u32), ('a', prophy.array(prophy.u8, bound='n', shift=2))]


class S1B(prophy.with_metaclass(prophy.struct_generator, prophy.struct)):
    _descriptor = [('n', prophy.u16), ('a', prophy.bytes(bound='n', shift=1))]


class S3I(prophy.with_metaclass(prophy.struct_generator, prophy.struct)):
    _descriptor = [('n', prophy.i32), ('a', prophy.array(prophy.u16, bound='n', shift=3))]


def cnt_shift2_u32(n: int, be: bool) -> bool:
    """
    pre: 0 <= n <= 65534
    post: _
    """
    return H.check_count_accept(S2, 0, n, be)


def cnt_shift1_u16_bytes(n: int, be: bool) -> bool:
    """
    pre: 0 <= n <= 65534
    post: _
    """
    return H.check_count_accept(S1B, 0, n, be)


def cnt_shift3_i32(n: int, be: bool) -> bool:
    """
    pre: 0 <= n <= 65533
    post: _
    """
    return H.check_count_accept(S3I, 0, n, be)


def msg_shift2(n: int, a0: int, a1: int, be: bool) -> bool:
    """
    pre: 0 <= n <= 2 and 0 <= a0 < 256 and 0 <= a1 < 256
    post: _
    """
    e = '>' if be else '<'
    x = S2()
    x.a[:] = [a0, a1][:n]
    data = x.encode(e)
    y = S2()
    k = y.decode(data, e)
    return k == len(data) and list(y.a) == [a0, a1][:n] and H.eq_bytes(y.encode(e), data)


def explain(fn, args, kwargs):
    try:
        ok = globals()[fn](*args)
    except Exception as ex:
        return dict(check='cnt-shift', kind='raises', exc=type(ex).__name__, fn=fn)
    return dict(check='cnt-shift', kind='differs' if not ok else 'passes?', fn=fn)


CONDS = [('cnt_shift2_u32', [65534, True]), ('cnt_shift1_u16_bytes', [65534, False]), ('cnt_shift3_i32', [65533, True]), ('msg_shift2', [2, 1, 2, True])]
