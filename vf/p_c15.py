"""C15 - definition order does not matter (E1: real model nodes, symbolic dependency relation and input permutation)."""
import itertools
import os
import time

from . import common as C
from . import compharness as K
from .chrun import Cond, run_conditions, to_obligations, concrete_reach

HEAD = '''# generated harness module (E1, definition order)
from vf import pyharness as H, compharness as K
H.setup(formatting_stub=False, int_str=True)
TUPLES = %(tuples)r


def explain(fn, args, kwargs):
    idx = int(fn.split('__')[1])
    kinds = TUPLES[idx]
    ne = len(K.edge_slots(kinds))
    return K.order_explain(kinds, list(args[:ne]), list(args[ne:]), int(fn.split('__')[2]))

'''

QUICK = [
    ('enum', 'const', 'struct'), ('const', 'enum', 'const'), ('enum', 'const', 'enum'), ('struct', 'typedef', 'struct'),
    ('enum', 'struct', 'typedef'), ('const', 'const', 'struct'), ('struct', 'union', 'struct'), ('union', 'struct', 'typedef'),
    ('enum', 'const', 'struct', 'typedef'), ('const', 'enum', 'const', 'struct'), ('struct', 'struct', 'typedef', 'struct'),
    ('enum', 'const', 'enum', 'const'), ('typedef', 'typedef', 'struct', 'union'), ('struct', 'struct', 'struct', 'struct'),
    ('const', 'const', 'const', 'struct'), ('enum', 'struct', 'typedef', 'struct'),
]


def check_input_order_model():
    """the grouping assumption, checked concretely against the real IsarParser on a sample document"""
    from prophyc.parsers.isar import IsarParser
    from prophyc import model
    xml = ('<x><struct name="S"><member name="a" type="u8"/></struct><enum name="E"><enum-member name="E_A" value="1"/></enum>'
           '<constant name="C" value="3"/><union name="U"><member name="a" type="u8" discriminatorValue="1"/></union>'
           '<typedef name="T" type="S"/><message name="M"><member name="a" type="u8"/></message></x>')
    nodes = IsarParser().parse(xml, None, None)
    got = [type(n).__name__ + ':' + n.name for n in nodes]
    want = ['Constant:C', 'Typedef:T', 'Enum:E', 'Struct:S', 'Union:U', 'Struct:M']
    if got != want:
        raise C.HarnessError('input-order model does not match IsarParser.parse: %r' % (got,))


def run(tier):
    t0 = time.time()
    work = C.workdir('C15')
    check_input_order_model()
    tuples = list(QUICK)
    if tier != 'quick':
        seen = set(tuples)
        for t in itertools.product(K.KINDS, repeat=4):
            if t not in seen and len(K.edge_slots(t)) >= 3:
                tuples.append(t)
        for t in itertools.product(K.KINDS, repeat=5):
            if len(K.edge_slots(t)) >= 8 and hash(t) % 9 == 0:
                tuples.append(t)
    path = os.path.join(work, 'order.py')
    body = [HEAD % dict(tuples=tuples)]
    conds = []
    for idx, kinds in enumerate(tuples):
        slots = K.edge_slots(kinds)
        groups = [len([1 for x in kinds if x == k]) for k in K.KINDS]
        sels = [g for g in groups if g >= 2]
        enames = ['e%d' % i for i in range(len(slots))]
        snames = ['s%d' % i for i in range(len(sels))]
        import math
        pres = ['0 <= %s < %d' % (s, math.factorial(g)) for s, g in zip(snames, sels)]
        sig = ', '.join(['%s: bool' % e for e in enames] + ['%s: int' % s for s in snames])
        has_expr = any(k in ('const', 'enum') for k in kinds)
        for style in ((0, 1, 2, 3) if has_expr else (0,)):
            fn = 'ord__%d__%d' % (idx, style)
            body.append('def %s(%s) -> bool:\n    """\n%s    post: _\n    """\n    return K.order_independent(TUPLES[%d], [%s], [%s], %d)\n\n'
                        % (fn, sig, ''.join('    pre: %s\n' % p for p in pres), idx, ', '.join(enames), ', '.join(snames), style))
            conds.append(Cond(path, fn, 'order/%s/spelling%d' % ('-'.join(kinds), style),
                              dict(check='definition order', kinds=list(kinds), spelling=K.join_terms(['1', 'A', 'B_M'], style),
                                   symbolic='%d dependency bits, %d in-group permutations' % (len(slots), len(sels))),
                              sample_args=[True] * len(slots) + [0] * len(sels)))
    with open(path, 'w') as f:
        f.write(''.join(body))
    conds = C.only(conds)
    raw = run_conditions(conds, 150 if tier == 'quick' else 900)
    obs, _ = to_obligations('C15', conds, raw)
    concrete_reach(conds, obs)
    return C.finish('C15', tier, obs, t0,
                    functions=['prophyc.model.topological_sort', 'prophyc.model.Constant/Enum/Typedef/StructMember/_Container.dependencies',
                               'prophyc.model.evaluate_model (cross_reference, evaluate_stiffness_kinds, evaluate_sizes)'],
                    bounds=dict(definitions='3..4 (quick, %d kind tuples); all 4-tuples with >= 3 possible references + sampled 5-tuples (thorough)' % len(QUICK),
                                relation='every acyclic reference relation compatible with the node kinds (constant->constant/enumerator, enum value->constant/enumerator, '
                                         'typedef/struct member/union arm->type, struct array size->constant)',
                                order='document order inside each isar kind group symbolic; groups in IsarParser order',
                                outside='sack front-end; more than 5 definitions; cross-group permutations no isar document can produce'),
                    assumptions=['input-order model (constants, typedefs, enums, structs, unions, messages) checked against the real IsarParser each run',
                                 'dependency relation is the harness\'s own (names referenced anywhere in a node), not dependencies()\' answer'])
