#!/bin/sh
# Offline setup: overlay venv on top of /venv (the repository's interpreter) + crosshair-tool, z3-solver from the wheelhouse.
set -e
cd "$(dirname "$0")"
if [ ! -x .venv/bin/python ] || ! .venv/bin/python -c "import crosshair, z3" 2>/dev/null; then
  rm -rf .venv
  /venv/bin/python -m venv .venv
  SP=$(.venv/bin/python -c "import sysconfig; print(sysconfig.get_paths()['purelib'])")
  echo "import site; site.addsitedir('/venv/lib/python3.12/site-packages')" > "$SP/zz_repo_venv.pth"
  PIP_NO_INDEX=1 .venv/bin/pip install -q --no-index --find-links /opt/veriftools/wheels crosshair-tool z3-solver
fi
.venv/bin/python -c "import crosshair, z3, prophy, prophyc, ply; print('setup ok: crosshair', crosshair.__version__, 'z3', z3.get_version_string(), 'prophy from', prophy.__file__)"
