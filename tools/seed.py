#!/usr/bin/env python3
"""Seeded-change tooling.

  seed.py verify <agentout_dir> <worktree>     confirm: suite passes + demo fails with patch; demo passes without; -> prints verdict
  seed.py adopt  <agentout_dir> <name>         copy patch.diff / demo.py / meta.json into /verif/seeded/<name>/
  seed.py run    <name> <PROP> [<PROP> ...]    apply seeded/<name>/patch.diff to /repo, run quick checks, revert; report detection
"""
import json
import os
import shutil
import subprocess
import sys

VERIF = os.path.dirname(os.path.dirname(os.path.abspath(__file__)))
PY = '/venv/bin/python'


def sh(cmd, cwd=None, timeout=3600):
    r = subprocess.run(cmd, cwd=cwd, capture_output=True, text=True, timeout=timeout)
    return r.returncode, r.stdout + r.stderr


def verify(src, wt):
    patch = os.path.join(src, 'patch.diff')
    rc, out = sh(['git', 'status', '--porcelain'], cwd=wt)
    assert out.strip() == '', 'worktree not clean: ' + out
    res = {}
    shutil.copy(os.path.join(src, 'demo.py'), os.path.join(wt, '_demo.py'))
    try:
        rc, out = sh([PY, '_demo.py'], cwd=wt)
        res['demo_without'] = rc
        rc, out = sh(['git', 'apply', patch], cwd=wt)
        if rc != 0:
            rc, out = sh(['git', 'apply', '-3', patch], cwd=wt)
        res['apply'] = rc
        if rc == 0:
            rc, out = sh([PY, '_demo.py'], cwd=wt)
            res['demo_with'] = rc
            res['demo_out'] = out[-400:]
            rc, out = sh([PY, '-m', 'pytest', '-q', '-p', 'no:cacheprovider', '-x'], cwd=wt)
            res['suite'] = rc
            res['suite_tail'] = out.strip().splitlines()[-1] if out.strip() else ''
    finally:
        os.remove(os.path.join(wt, '_demo.py'))
        sh(['git', 'checkout', '--', '.'], cwd=wt)
        sh(['git', 'reset', '-q', '--hard'], cwd=wt)
    res['valid'] = (res.get('demo_without') == 0 and res.get('apply') == 0 and res.get('demo_with', 0) != 0 and res.get('suite') == 0)
    print(json.dumps(res, indent=1))
    return res


def adopt(src, name):
    dst = os.path.join(VERIF, 'seeded', name)
    os.makedirs(dst, exist_ok=True)
    for f in ('patch.diff', 'demo.py', 'meta.json'):
        shutil.copy(os.path.join(src, f), os.path.join(dst, f))
    print('adopted', dst)


def run(name, props, tier='quick'):
    d = os.path.join(VERIF, 'seeded', name)
    patch = os.path.join(d, 'patch.diff')
    rc, out = sh(['git', 'status', '--porcelain'], cwd='/repo')
    assert out.strip() == '', '/repo not clean: ' + out
    rc, out = sh(['git', 'apply', patch], cwd='/repo')
    if rc != 0:
        rc, out = sh(['git', 'apply', '-3', patch], cwd='/repo')
        sh(['git', 'reset', '-q'], cwd='/repo')
    if rc != 0:
        sh(['git', 'checkout', '--', '.'], cwd='/repo')
        print('PATCH DOES NOT APPLY', out[-500:])
        return None
    results = {}
    try:
        # stash evidence so that seeded runs never overwrite committed evidence
        ev = os.path.join(VERIF, 'evidence')
        bak = os.path.join(VERIF, '.work', 'evidence_backup')
        shutil.rmtree(bak, ignore_errors=True)
        os.makedirs(os.path.dirname(bak), exist_ok=True)
        shutil.copytree(ev, bak)
        for p in props:
            rc, out = sh([os.path.join(VERIF, 'check'), p, '--tier', tier], cwd=VERIF, timeout=7200)
            lines = [l for l in out.splitlines() if l.startswith('VIOLATION') or l.startswith('KNOWN') or l.startswith('HARNESS')]
            results[p] = dict(rc=rc, detected=(rc == 1), lines=lines[:6], summary=[l for l in out.splitlines() if l.startswith(p + ' ')][-1:])
            print(p, 'rc=%d' % rc, 'DETECTED' if rc == 1 else ('MACHINERY-ERROR' if rc == 2 else 'missed'), *lines[:4], sep='\n  ')
    finally:
        sh(['git', 'checkout', '--', '.'], cwd='/repo')
        shutil.rmtree(ev, ignore_errors=True)
        shutil.copytree(bak, ev)
        shutil.rmtree(bak, ignore_errors=True)
    rc, out = sh(['git', 'status', '--porcelain'], cwd='/repo')
    assert out.strip() == '', '/repo not clean after revert: ' + out
    meta = os.path.join(d, 'results.json')
    old = json.load(open(meta)) if os.path.exists(meta) else {}
    old.update({p: dict(rc=r['rc'], detected=r['detected'], tier=tier) for p, r in results.items()})
    json.dump(old, open(meta, 'w'), indent=1, sort_keys=True)
    return results


if __name__ == '__main__':
    cmd = sys.argv[1]
    if cmd == 'verify':
        verify(sys.argv[2], sys.argv[3])
    elif cmd == 'adopt':
        adopt(sys.argv[2], sys.argv[3])
    elif cmd == 'run':
        tier = os.environ.get('SEED_TIER', 'quick')
        run(sys.argv[2], sys.argv[3:], tier)
