#!/bin/sh
# runs every claimed quick (or $1) check once, one summary line each; per-check logs go to .work/runall_<ID>.log
cd "$(dirname "$0")/.."
TIER=${1:-quick}
mkdir -p .work
for p in $(python3 -c "import json; print(' '.join(c['property_id'] for c in json.load(open('MANIFEST.json'))['checks']))"); do
  s=$(date +%s)
  ./check $p --tier $TIER > .work/runall_$p.log 2>&1
  rc=$?
  echo "$p rc=$rc $(( $(date +%s) - s ))s $(grep -E "^$p $TIER" .work/runall_$p.log | tail -1 | cut -c1-160)"
done
