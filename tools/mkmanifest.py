#!/usr/bin/env python3
"""Regenerates /verif/MANIFEST.json from the table below (keeps it schema-valid at all times)."""
import json
import os
import sys

HERE = os.path.dirname(os.path.dirname(os.path.abspath(__file__)))
sys.path.insert(0, HERE)

E1 = 'E1: CrossHair 0.0.110 (symbolic execution of the real Python with z3) + engine patch layer vf/chpatches.py'
E2 = 'E2: llsym (vf/llsym.py): symbolic execution of clang-14 -O1 LLVM IR of the generated C++ with z3 bit-vectors'
E3 = 'E3: direct z3 queries'

CHECKS = {
    'C01': dict(engine=E1, technique='symbolic execution (CrossHair/z3) of the real prophy encode on prophyc-generated classes vs an independent reference encoder, per (schema shape, array-length profile); all field values, presence, arm, byte order symbolic',
                text='Bounded symbolic model checking: for every struct of the finite family F and every chosen array-length profile the solver shows encode(msg) == reference bytes for ALL field values / optional presence / union arm / byte order, or returns a counterexample that is replayed concretely. Shapes and lengths are enumerated, values are quantified by the solver.',
                note='Trusted: CrossHair+patches (setattr, metaclass ctor, ljust, message formatting stub, linear to_bytes), z3, wirespec reference (re-derives all docs/encoding.rst examples each run). Bounds: family F, array lengths<=2, floats concrete.', ref='DESIGN 4 C01'),
    'C02': dict(engine=E1, technique='symbolic execution (CrossHair/z3) of real encode -> decode -> observe -> re-encode; all field values symbolic',
                text='Bounded symbolic model checking of the pure round trip (no reference involved): decode consumes len(bytes), every field read back through the public API equals what was set, re-encode is byte-identical; for all values within family F / length profiles.',
                note='Trusted: CrossHair+patches, z3. Greedy tails only where the reference says the tail ends aligned (documented exception excluded by construction).', ref='DESIGN 4 C02'),
    'C06': dict(engine=E1, technique='symbolic execution (CrossHair/z3) of real decode on L fully symbolic input bytes per length L; reachability twin per satisfiable length',
                text='Bounded symbolic model checking: for each shape of F (no floats) and each input length L in the bound, ALL 256^L inputs: decode returns or raises ProphyError only; accepted inputs have element count <= L, encode without error and re-decode to a fixpoint.',
                note='Trusted: CrossHair+patches, z3. Bounds: L <= static size+3 (<=24) quick, +6 (<=40) thorough. Timeouts are reported inconclusive.', ref='DESIGN 4 C06'),
    'C19': dict(engine=E1, technique='symbolic execution (CrossHair/z3): encode("<") vs encode(">") of one symbolic message against the reference byte map',
                text='Bounded symbolic model checking: same length, scalars mirrored in place, all padding zero in both byte orders, for all values within F (Python codec; C++ part via llsym).',
                note='Trusted: CrossHair+patches, z3, wirespec byte map. Asserted on paths where the LE image equals the reference (layout defects are C01).', ref='DESIGN 4 C19'),
    'C04': dict(engine=E1, technique='symbolic execution (CrossHair/z3) of the real layout code (prophyc model.evaluate_sizes/calc_wire_stiffness; prophy struct_generator/union_generator/optional/array) on member types with symbolic size and alignment, vs the documented layout rules; one inductive step per member-form tuple',
                text='Schema-symbolic bounded model checking ("Layer A"): for every tuple of member forms up to the bound, ALL member sizes (q*2^k) and alignments: computed size/alignment/kind/paddings equal the documented rules and satisfy the type invariant again (so nesting depth is unbounded); stiffness never lower than the reference.',
                note='Trusted: CrossHair+patches (incl. patch 7: exact real model of int/2^k, justified by a QF_FP lemma discharged each run), z3, wirespec.abstract_struct_layout. Bounds: <=3 members symbolic (4 thorough, sampled), array extents 2,3. C++ constants are checked by the E2 checks on family F.', ref='DESIGN 4 C04'),
    'C10': dict(engine=E1 + ' + ' + E3, technique='symbolic execution (CrossHair/z3) of one public-API operation with arbitrary arguments from an arbitrary valid message state, compared with a plain reference model; explicit 3-step toggle histories; one QF_FP z3 lemma for float range',
                text='Inductive-step bounded model checking: state values, operation arguments (ints unbounded, other types by samples), indices and slice bounds are symbolic; accepted => observable state (attributes, len, iteration, discriminator, encode) equals the model; rejected => ProphyError / list-style IndexError, ValueError and state unchanged; post-state encodes.',
                note='Trusted: CrossHair+patches, z3, the reference model in vf/apiharness.py. Bounds: array limit 3, indices in [-5,5] or None (quick: [-3,3]), API subfamily of 7 structs. Known findings listed in known_findings.json.', ref='DESIGN 4 C10'),
    'C11': dict(engine=E1, technique='symbolic execution (CrossHair/z3) of copy_from / extend on two symbolic messages followed by one mutation of either side',
                text='Bounded symbolic model checking: after b.copy_from(a) observable state and encoding equal, a unchanged, for all values/presence/arms/lengths within bounds; a later mutation of either message leaves the other untouched; same for elements copied by extend().',
                note='Trusted: CrossHair+patches, z3. Bounds: 5 schemas (scalars/bytes, optionals incl. optional union, union in struct, scalar arrays, composite arrays), lengths <=3/2, one mutation.', ref='DESIGN 4 C11'),
}

PENDING = {}

NA = {
    'C18': 'C++ half is printer.hpp on std::ostream: formatting lives in precompiled libstdc++ (no IR), virtual-base/facet indirection; a model of iostreams would not be the real code. Python half alone does not decide a cross-language property.',
    'C20': 'The quantified variables (hash seed, cwd, argv order, repeated runs) are properties of the process environment, not values flowing through the code; nothing to make symbolic. Run-twice-and-diff is a different technique.',
}


def main():
    from vf.cli import PROPS
    props = [json.loads(l) for l in open(os.path.join(HERE, 'properties.jsonl'))]
    checks = []
    na = []
    for p in props:
        pid = p['id']
        if pid in CHECKS and pid in PROPS:
            c = CHECKS[pid]
            checks.append(dict(
                property_id=pid,
                quick_cmd='./check %s --tier quick' % pid,
                thorough_cmd='./check %s --tier thorough' % pid,
                evidence_file='/verif/evidence/%s.json' % pid,
                replay_cmd_template='./check replay {path}',
                engine=c['engine'],
                level_claimed=dict(category='model_checking', text=c['text'], design_ref=c['ref']),
                level_note=c['note'],
                technique=c['technique'],
            ))
        elif pid in NA:
            na.append(dict(property_id=pid, reason=NA[pid]))
        else:
            na.append(dict(property_id=pid, reason='not claimed in this revision: the solver-based check designed in DESIGN.md section 4 is not built yet'))
    man = dict(
        version=1,
        setup_cmd='./setup.sh',
        hooks=dict(guard='PROPHY_VERIF', enable='no source hooks are needed: checks import /repo working tree directly (PYTHONPATH) and run prophyc from it',
                   baseline_off_cmd='cd /repo && /venv/bin/python -m pytest -ra -q -p no:cacheprovider --timeout=900 --continue-on-collection-errors',
                   source_commits=[], add_only=True),
        engines=[dict(name='E1-crosshair', path='vf/chrun.py', serves_properties=sorted(k for k, v in CHECKS.items() if v['engine'] == E1 and k in PROPS), kind_free_text=E1)],
        checks=checks,
        not_applicable=na,
        notes='Exit codes: 0 no unlisted violation; 1 replayed violation (VIOLATION line); 2 machinery failure. Known findings: known_findings.json.',
    )
    with open(os.path.join(HERE, 'MANIFEST.json'), 'w') as f:
        json.dump(man, f, indent=1)
    try:
        import jsonschema
        jsonschema.validate(man, json.load(open('/root/.vp/MANIFEST.schema.json')))
        print('MANIFEST.json valid: %d checks, %d not applicable' % (len(checks), len(na)))
    except ImportError:
        print('MANIFEST.json written (jsonschema not available to validate)')


if __name__ == '__main__':
    main()
