#!/usr/bin/env python3
"""Regenerates /verif/MANIFEST.json from the table below (keeps it schema-valid at all times)."""
import json
import os
import sys

HERE = os.path.dirname(os.path.dirname(os.path.abspath(__file__)))
sys.path.insert(0, HERE)

E1 = 'E1: CrossHair 0.0.110 (symbolic execution of the real Python with z3) + engine patch layer vf/chpatches.py'
E2 = 'E2: llsym (vf/llsym.py): symbolic execution of clang-14 -O1 LLVM IR of the generated C++ with z3 bit-vectors'
E3 = 'E3: direct z3 queries'

CHECKS = {
    'C01': dict(engine=E1, technique='symbolic execution (CrossHair/z3) of the real prophy encode on prophyc-generated classes vs an independent reference encoder, per (schema shape, array-length profile); all field values, presence, arm, byte order symbolic',
                text='Bounded symbolic model checking: for every struct of the finite family F and every chosen array-length profile the solver shows encode(msg) == reference bytes for ALL field values / optional presence / union arm / byte order, or returns a counterexample that is replayed concretely. Shapes and lengths are enumerated, values are quantified by the solver.',
                note='Trusted: CrossHair+patches (setattr, metaclass ctor, ljust, message formatting stub, linear to_bytes), z3, wirespec reference (re-derives all docs/encoding.rst examples each run). Bounds: family F, array lengths<=2, floats concrete.', ref='DESIGN 4 C01'),
    'C02': dict(engine=E1, technique='symbolic execution (CrossHair/z3) of real encode -> decode -> observe -> re-encode; all field values symbolic',
                text='Bounded symbolic model checking of the pure round trip (no reference involved): decode consumes len(bytes), every field read back through the public API equals what was set, re-encode is byte-identical; for all values within family F / length profiles.',
                note='Trusted: CrossHair+patches, z3. Greedy tails only where the reference says the tail ends aligned (documented exception excluded by construction).', ref='DESIGN 4 C02'),
    'C06': dict(engine=E1, technique='symbolic execution (CrossHair/z3) of real decode on L fully symbolic input bytes per length L; reachability twin per satisfiable length',
                text='Bounded symbolic model checking: for each shape of F (no floats) and each input length L in the bound, ALL 256^L inputs: decode returns or raises ProphyError only; accepted inputs have element count <= L, encode without error and re-decode to a fixpoint.',
                note='Trusted: CrossHair+patches, z3. Bounds: L <= static size+3 (<=24) quick, +6 (<=40) thorough. Timeouts are reported inconclusive.', ref='DESIGN 4 C06'),
    'C19': dict(engine=E1, technique='symbolic execution (CrossHair/z3): encode("<") vs encode(">") of one symbolic message against the reference byte map',
                text='Bounded symbolic model checking: same length, scalars mirrored in place, all padding zero in both byte orders, for all values within F (Python codec; C++ part via llsym).',
                note='Trusted: CrossHair+patches, z3, wirespec byte map. Asserted on paths where the LE image equals the reference (layout defects are C01).', ref='DESIGN 4 C19'),
    'C04': dict(engine=E1, technique='symbolic execution (CrossHair/z3) of the real layout code (prophyc model.evaluate_sizes/calc_wire_stiffness; prophy struct_generator/union_generator/optional/array) on member types with symbolic size and alignment, vs the documented layout rules; one inductive step per member-form tuple',
                text='Schema-symbolic bounded model checking ("Layer A"): for every tuple of member forms up to the bound, ALL member sizes (q*2^k) and alignments: computed size/alignment/kind/paddings equal the documented rules and satisfy the type invariant again (so nesting depth is unbounded); stiffness never lower than the reference.',
                note='Trusted: CrossHair+patches (incl. patch 7: exact real model of int/2^k, justified by a QF_FP lemma discharged each run), z3, wirespec.abstract_struct_layout. Bounds: <=3 members symbolic (4 thorough, sampled), array extents 2,3. C++ constants are checked by the E2 checks on family F.', ref='DESIGN 4 C04'),
    'C10': dict(engine=E1 + ' + ' + E3, technique='symbolic execution (CrossHair/z3) of one public-API operation with arbitrary arguments from an arbitrary valid message state, compared with a plain reference model; explicit 3-step toggle histories; one QF_FP z3 lemma for float range',
                text='Inductive-step bounded model checking: state values, operation arguments (ints unbounded, other types by samples), indices and slice bounds are symbolic; accepted => observable state (attributes, len, iteration, discriminator, encode) equals the model; rejected => ProphyError / list-style IndexError, ValueError and state unchanged; post-state encodes.',
                note='Trusted: CrossHair+patches, z3, the reference model in vf/apiharness.py. Bounds: array limit 3, indices in [-5,5] or None (quick: [-3,3]), API subfamily of 7 structs. Known findings listed in known_findings.json.', ref='DESIGN 4 C10'),
    'C11': dict(engine=E1, technique='symbolic execution (CrossHair/z3) of copy_from / extend on two symbolic messages followed by one mutation of either side',
                text='Bounded symbolic model checking: after b.copy_from(a) observable state and encoding equal, a unchanged, for all values/presence/arms/lengths within bounds; a later mutation of either message leaves the other untouched; same for elements copied by extend().',
                note='Trusted: CrossHair+patches, z3. Bounds: 5 schemas (scalars/bytes, optionals incl. optional union, union in struct, scalar arrays, composite arrays), lengths <=3/2, one mutation.', ref='DESIGN 4 C11'),
    'C03': dict(engine=E2 + ' + ' + E1, technique='symbolic execution (llsym/z3 bit-vectors) of the clang -O1 LLVM IR of the generated C++ decode/encode on the reference encoding with symbolic scalar leaves; Python side linked through the C01 obligation on the same family',
                text='Bounded symbolic model checking: for each C++-eligible shape, array-length / presence / arm profile and byte order, for ALL scalar values: decode of the canonical bytes succeeds consuming everything, get_byte_size == length, encode of the decoded object returns identical bytes; plus (E1) Python encode == the same reference bytes.',
                note='Trusted: clang-14 -O1 lowering, llsym IR semantics + leaf stubs, z3, wirespec. Counterexamples are replayed on a g++ ASan/UBSan build before being reported.', ref='DESIGN 4 C03'),
    'C05': dict(engine=E2, technique='symbolic execution (llsym/z3) of the IR of get_byte_size() and encode<E> on a message object laid out in memory from the IR types (structure per query, all scalar fields symbolic), output buffer of exactly get_byte_size() bytes',
                text='Bounded symbolic model checking: encode never stores outside a buffer of get_byte_size() bytes, returns exactly that many bytes, equals encoded_byte_size for fixed types; lengths 0..3 (limited arrays also limit+1), presence and arm enumerated, scalars quantified by the solver.',
                note='Trusted: clang-14 -O1, llsym + stubs, z3, offsetof() constants compiled from the generated header. Replay rebuilds the object through the public C++ API under ASan.', ref='DESIGN 4 C05'),
    'C07': dict(engine=E2, technique='symbolic execution (llsym/z3) of the IR of message<X>::decode<E> on L fully symbolic input bytes per length L, with executed libstdc++ vector growth; bounds check on every access, poison tracking, allocation-request bound, unwinding assertions',
                text='Bounded symbolic model checking: for each shape and input length L, ALL 256^L inputs: no access outside [data, data+L) or owned objects, no abort, every operator new request <= 2*R*L+64, true only if exactly L bytes consumed, accepted inputs re-encode to exactly L bytes (get_byte_size and encode).',
                note='Trusted: clang-14 -O1, llsym + stubs (operator new/delete, memset/memmove, bswap, assume, __assert_fail, __throw_*), z3; 8-byte aligned buffers. Replay under ASan/UBSan with an operator new that records the largest request.', ref='DESIGN 4 C07'),
    'C13': dict(engine=E1, technique='symbolic execution (CrossHair/z3) of prophyc units: topological_sort with a fuel counter over every dependency relation incl. cycles; evaluate_model on type definitions that name each other or themselves (fuel on typedef chains); isar element builders with symbolic attribute presence and patch lines with symbolic words (only designed exceptions may surface); option/generator output-directory contract with a symbolic file-system answer; z3 ambiguity queries on the token regexes of the lexers (E3); parser/calc expression actions with symbolic constant values (zero divisors, negative shifts, truncated expressions); FileProcessor + p_include_def over a stub file system with a symbolic include matrix',
                text='Bounded symbolic model checking at unit level: termination within the fuel bound or ModelError; only designed error types surface; each file processed once; missing/cyclic includes reported. Whole-program symbolic text is not encodable and is outside the claim.',
                note='Trusted: CrossHair+patches (incl. patch 8: int(str(i)) == i kept symbolic), z3, the in-memory file-system stub. Bounds: <=3 (4 thorough) definitions, 23 expression shapes, 3 files, 8 attribute-presence bits per isar element kind, one patch line, regex alternatives that are single character classes over characters 0..127.', ref='DESIGN 4 C13'),
    'C14': dict(engine=E1, technique='symbolic execution (CrossHair/z3) of the real ply parser actions, calc and model evaluators on concrete expression texts whose named constants are symbolic integers, against an independent precedence-climbing reference evaluator',
                text='Bounded symbolic model checking: for every operator sequence (<=2 binary operators quick, <=3 thorough) and all values of A,B,C in [-2^64,2^64]: parse-time value == reference == calc.eval == _collect_constants == to_int == numeric_size; a later reference to the constant reads the same integer.',
                note='Trusted: CrossHair+patches (patch 8), z3, reference evaluator in vf/exprharness.py. C++/Python literal text for symbolic values is outside (string formatting); checked concretely on boundary values and reported separately.', ref='DESIGN 4 C14'),
    'C15': dict(engine=E1, technique='symbolic execution (CrossHair/z3) of topological_sort + evaluate_model on real model nodes with a symbolic acyclic reference relation and symbolic document order inside each isar kind group',
                text='Bounded symbolic model checking: output is a permutation of the input, every definition after everything it refers to (constants, enumerators, types, array-size constants), layouts identical to the dependency-ordered run; for every relation and order within the bound.',
                note='Trusted: CrossHair+patches, z3; input-order model (isar collects constants, typedefs, enums, structs, unions, messages) checked against the real IsarParser each run. Bounds: 3-4 definitions (5 sampled in thorough).', ref='DESIGN 4 C15'),
    'C08': dict(engine=E2, technique='symbolic execution (llsym/z3) of accessors compiled from the generated raw header <schema>.pp.hpp, overlaid on fully symbolic bytes, plus its sizeof/alignof/offsetof constant functions, against the reference wire offsets',
                text='Bounded symbolic model checking: for every struct/union type of F (helper types included) and every named member of the main struct and of each partN: offsetof == wire offset, sizeof == wire size (fixed types, unions); reading a scalar member yields exactly the bytes at its wire offset for ALL buffer contents, writing it changes exactly those bytes for ALL values.',
                note='Trusted: clang-14 -O1 lowering of the packed/aligned structs, llsym, z3, reference offsets (vf/rawharness.py over wirespec). g++ re-evaluates the same constants/accessors in the replay. ABI: x86-64 GNU.', ref='DESIGN 4 C08'),
    'C09': dict(engine=E2, technique='symbolic execution (llsym/z3) of the IR of the generated prophy::swap<X> on the big-endian reference encoding with symbolic scalar leaves, embedded between symbolic guard bytes',
                text='Bounded symbolic model checking: after swap the message bytes equal the native reference encoding for ALL scalar values, no guard byte changed, returned pointer == aligned end (greedy tail: address of the unlimited member, members before it native); lengths {0,1,2}, presence/arm per query.',
                note='Trusted: clang-14 -O1, llsym, z3, wirespec. Native replay under ASan. One open known finding (part cast over-alignment, pinned by a repository test).', ref='DESIGN 4 C09'),
    'C12': dict(engine=E1, technique='symbolic execution (CrossHair/z3) of the front-end validation functions (Parser._validate_struct_members, p_union_member/p_union_def, p_enum_member, model constructors) on members described by symbolic small integers, and of the runtime class creation from the real generated Python text',
                text='Shape-symbolic bounded model checking below the grammar: front-end accepts => the generated Python class can be created; front-end accepts => every documented composability rule holds (so rule breakers are rejected); over all type/form/sizer/duplicate/magnitude combinations within the bound.',
                note='Trusted: CrossHair+patches, z3, the rule predicate legal_member() written from docs/schema.rst. C++ compilability is observed as build errors of the E2 checks (not solver-decided). Rules enforced purely by the grammar are outside.', ref='DESIGN 4 C12'),
    'C16': dict(engine=E1, technique='symbolic execution (CrossHair/z3) of evaluate_model on Include nodes with symbolic placement of declarations and symbolic constant values, and of FileProcessor / p_include_def over a stub file system with symbolic directory contents and include matrix',
                text='Bounded symbolic model checking at model level: layouts, constants and numeric array sizes equal those of the single flat file for every placement; the leaf is read from the first existing directory in the documented order and the directory stack is restored; each file processed once; missing / cyclic includes reported.',
                note='Trusted: CrossHair+patches, z3, in-memory file system stub. Generated-text equivalence is covered through layout equality only; real directories/cwd outside.', ref='DESIGN 4 C16'),
    'C17': dict(engine=E1, technique='symbolic execution (CrossHair/z3) of isar.make_struct / make_enum on ElementTree elements, patch.patch with every action, and the prophy-text parser actions, with symbolic array-size constants',
                text='Bounded symbolic model checking at model level: isar (+ each documented patch rule) and the independently written members / prophy text evaluate to identical (size, alignment, kind, per-member padding, numeric size) for all N; absent patch target leaves the model unchanged; inapplicable rules raise; every <dimension> form maps to the documented member form.',
                note='Trusted: CrossHair+patches, z3, the expected members per rule in vf/frontharness.py. XML text (expat) and patch-file text are outside; negative enumerators on concrete values only.', ref='DESIGN 4 C17'),
}

PENDING = {}

NA = {
    'C18': 'C++ half is printer.hpp on std::ostream: formatting lives in precompiled libstdc++ (no IR), virtual-base/facet indirection; a model of iostreams would not be the real code. Python half alone does not decide a cross-language property.',
    'C20': 'The quantified variables (hash seed, cwd, argv order, repeated runs) are properties of the process environment, not values flowing through the code; nothing to make symbolic. Run-twice-and-diff is a different technique.',
}


def main():
    from vf.cli import PROPS
    props = [json.loads(l) for l in open(os.path.join(HERE, 'properties.jsonl'))]
    checks = []
    na = []
    for p in props:
        pid = p['id']
        if pid in CHECKS and pid in PROPS:
            c = CHECKS[pid]
            checks.append(dict(
                property_id=pid,
                quick_cmd='./check %s --tier quick' % pid,
                thorough_cmd='./check %s --tier thorough' % pid,
                evidence_file='/verif/evidence/%s.json' % pid,
                replay_cmd_template='./check replay {path}',
                engine=c['engine'],
                level_claimed=dict(category='model_checking', text=c['text'], design_ref=c['ref']),
                level_note=c['note'],
                technique=c['technique'],
            ))
        elif pid in NA:
            na.append(dict(property_id=pid, reason=NA[pid]))
        else:
            na.append(dict(property_id=pid, reason='not claimed in this revision: the solver-based check designed in DESIGN.md section 4 is not built yet'))
    man = dict(
        version=1,
        setup_cmd='./setup.sh',
        hooks=dict(guard='PROPHY_VERIF', enable='no source hooks are needed: checks import /repo working tree directly (PYTHONPATH) and run prophyc from it',
                   baseline_off_cmd='cd /repo && /venv/bin/python -m pytest -ra -q -p no:cacheprovider --timeout=900 --continue-on-collection-errors',
                   source_commits=[], add_only=True),
        engines=[dict(name='E1-crosshair', path='vf/chrun.py', serves_properties=sorted(k for k, v in CHECKS.items() if E1 in v['engine'] and k in PROPS), kind_free_text=E1),
                 dict(name='E2-llsym', path='vf/llsym.py', serves_properties=sorted(k for k, v in CHECKS.items() if E2 in v['engine'] and k in PROPS), kind_free_text=E2),
                 dict(name='E3-z3', path='vf/p_c10.py, vf/p_c04.py', serves_properties=['C04', 'C10'], kind_free_text=E3 + ' (QF_FP lemmas)')],
        checks=checks,
        not_applicable=na,
        notes='Exit codes: 0 no unlisted violation; 1 replayed violation (VIOLATION line); 2 machinery failure. Known findings: known_findings.json.',
    )
    with open(os.path.join(HERE, 'MANIFEST.json'), 'w') as f:
        json.dump(man, f, indent=1)
    try:
        import jsonschema
        jsonschema.validate(man, json.load(open('/root/.vp/MANIFEST.schema.json')))
        print('MANIFEST.json valid: %d checks, %d not applicable' % (len(checks), len(na)))
    except ImportError:
        print('MANIFEST.json written (jsonschema not available to validate)')


if __name__ == '__main__':
    main()
