#!/bin/sh
# usage: tools/seedbatch.sh "<seed> <PROP> [<PROP>...]" ...   (sequential; each applies the seeded patch to /repo, runs checks, reverts)
cd "$(dirname "$0")/.."
for item in "$@"; do
  set -- $item
  echo "=== $item"
  python3 tools/seed.py run "$@" 2>&1 | grep -E "DETECTED|missed|MACHINERY|APPLY|VIOLATION|KNOWN" | cut -c1-200
done
